#!/bin/bash
# usage: tools_mut.sh <patch-or-"sed:FILE:EXPR"> <PROP> [tier]   -- run a check against a scratch worktree with a change applied
set -e
W=/var/tmp/mw_$$
git -C /repo worktree add --detach -f $W HEAD >/dev/null 2>&1
trap "git -C /repo worktree remove --force $W >/dev/null 2>&1; rm -rf $W" EXIT
case "$1" in
 sed:*) IFS=: read -r _ f e <<< "$1"; sed -i "$e" $W/$f; git -C $W diff --stat | tail -1;;
 *) git -C $W apply "$(realpath "$1")";;
esac
shift
for p in "$@"; do
  VERIF_REPO_ROOT=$W VERIF_EVIDENCE_DIR=/var/tmp/ev_$$ /venv/bin/python /verif/check.py $p --tier ${TIER:-quick} 2>&1 | grep -E "VIOLATION|violation\[|HARNESS|tier=" | cut -c1-400 || true
done
rm -rf /var/tmp/ev_$$
