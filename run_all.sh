#!/bin/bash
# run every claimed check (quick by default) and summarise
TIER=${1:-quick}
for p in $(python3 -c "import json;print(' '.join(c['property_id'] for c in json.load(open('/verif/MANIFEST.json'))['checks']))"); do
  s=$(date +%s)
  out=$(/venv/bin/python /verif/check.py $p --tier $TIER 2>&1); rc=$?
  echo "$p rc=$rc $(echo "$out" | grep -E "^$p tier=" | cut -c1-200)"
  echo "$out" | grep -E "VIOLATION|HARNESS|KNOWN-FINDING" | cut -c1-200
done
