"""Core of the checking framework: context, violations, evidence, runner."""
from __future__ import annotations

import atexit
import importlib
import json
import os
import shutil
import sys
import time
import traceback
from typing import Any, Callable

VERIF = os.path.dirname(os.path.dirname(os.path.abspath(__file__)))
EVIDENCE_DIR = os.environ.get("VERIF_EVIDENCE_DIR") \
    or os.path.join(VERIF, "evidence")
REPLAY_DIR = os.path.join(os.environ["VERIF_EVIDENCE_DIR"], "replays") \
    if os.environ.get("VERIF_EVIDENCE_DIR") \
    else os.path.join(VERIF, "replays")
CACHE_DIR = os.path.join(VERIF, ".cache")
KNOWN_FILE = os.path.join(VERIF, "known_findings.json")

LEVELS = {}  # property id -> level, filled from MANIFEST.json


def _load_levels() -> dict[str, str]:
    try:
        with open(os.path.join(VERIF, "MANIFEST.json")) as f:
            man = json.load(f)
        return {c["property_id"]: c["level_claimed"]["category"]
                for c in man["checks"]}
    except Exception:  # noqa
        return {}


def jsonable(o: Any) -> Any:
    """Convert numpy things etc. into plain JSON values."""
    import numpy as np
    if isinstance(o, dict):
        return {str(k): jsonable(v) for k, v in o.items()}
    if isinstance(o, (list, tuple, set, frozenset)):
        return [jsonable(v) for v in o]
    if isinstance(o, np.ndarray):
        return o.tolist()
    if isinstance(o, (np.integer,)):
        return int(o)
    if isinstance(o, (np.floating,)):
        return float(o)
    if isinstance(o, (np.bool_,)):
        return bool(o)
    if isinstance(o, float):
        if o != o or o in (float("inf"), float("-inf")):
            return repr(o)
        return o
    if isinstance(o, (int, str, bool)) or o is None:
        return o
    return repr(o)


class HarnessError(Exception):
    """Something is wrong with the harness, not with the code under test."""


class Ctx:
    """The context handed to a property module's ``run`` function."""

    def __init__(self, prop: str, tier: str, seed: int, jobs: int) -> None:
        self.prop = prop
        self.tier = tier
        self.quick = tier == "quick"
        self.seed = seed
        self.jobs = jobs
        self.t0 = time.time()
        self.violations: list[dict] = []
        self.known_hits: list[dict] = []
        self._seen_sigs: set[str] = set()
        self.cov: dict[str, Any] = {
            "evaluations": 0, "distinct_nontrivial": 0, "states": 0,
            "transitions": 0, "traces_validated_against_impl": 0,
            "samples": [], "caps": [], "parts": {}, "exhaustive": True}
        self.assumptions: list[str] = []
        self.max_violations = 25
        try:
            with open(KNOWN_FILE) as f:
                self.known = [k for k in json.load(f)["findings"]
                              if k["property"] == prop]
        except FileNotFoundError:
            self.known = []

    # ---- coverage bookkeeping
    def add(self, key: str, n: int = 1) -> None:
        self.cov[key] = self.cov.get(key, 0) + int(n)

    def part(self, name: str, **kv: Any) -> None:
        """Record the coverage numbers of one sub-exploration."""
        d = self.cov["parts"].setdefault(name, {})
        for k, v in kv.items():
            if isinstance(v, (int, float)) and not isinstance(v, bool) \
                    and isinstance(d.get(k), (int, float)):
                d[k] += v
            else:
                d[k] = jsonable(v)

    def sample(self, s: Any, limit: int = 12) -> None:
        if len(self.cov["samples"]) < limit:
            self.cov["samples"].append(jsonable(s))

    def cap(self, text: str) -> None:
        self.cov["caps"].append(text)
        self.cov["exhaustive"] = False

    def assume(self, text: str) -> None:
        if text not in self.assumptions:
            self.assumptions.append(text)

    def log(self, *a: Any) -> None:
        print(f"[{self.prop} {time.time() - self.t0:7.1f}s]", *a,
              flush=True)

    # ---- violations
    def too_many(self) -> bool:
        return len(self.violations) >= self.max_violations

    def violation(self, signature: str, text: str, replay: dict) -> None:
        """
        Report a violation.

        ``signature`` identifies the failing input class / call site; it is
        compared with known_findings.json. Only the first violation per
        signature is kept (simplest first, enumeration is ordered).
        """
        if signature in self._seen_sigs:
            return
        self._seen_sigs.add(signature)
        for k in self.known:
            if k["signature"] == signature and k.get("status") == "known":
                self.known_hits.append({"signature": signature,
                                        "text": k.get("text", text)})
                return
        self.violations.append({"signature": signature, "text": text,
                                "replay": jsonable(replay)})


def _setup_env(prop: str) -> str:
    """Fresh numba cache, repo root; returns the cache dir."""
    os.makedirs(CACHE_DIR, exist_ok=True)
    cdir = os.path.join(CACHE_DIR, f"run-{prop}-{os.getpid()}")
    os.makedirs(cdir, exist_ok=True)
    os.environ["NUMBA_CACHE_DIR"] = cdir
    main_pid = os.getpid()

    def _clean() -> None:
        if os.getpid() == main_pid:
            shutil.rmtree(cdir, ignore_errors=True)
    atexit.register(_clean)
    root = os.environ.get("VERIF_REPO_ROOT")
    if root:
        sys.path.insert(0, root)
    if VERIF not in sys.path:
        sys.path.insert(0, VERIF)
    return cdir


def repo_root() -> str:
    return os.environ.get("VERIF_REPO_ROOT") or "/repo"


def write_evidence(ctx: Ctx, level: str) -> str:
    os.makedirs(EVIDENCE_DIR, exist_ok=True)
    cov = dict(ctx.cov)
    if not cov["samples"]:
        # a run that stopped early because of violations may not have
        # reached its sampling code: the failing cases are explored cases
        cov["samples"] = [v["replay"] for v in ctx.violations[:3]] + \
            [{"known_finding": k["signature"]} for k in ctx.known_hits[:1]]
    if cov.get("distinct_nontrivial", 0) < 2 and ctx.violations:
        cov["distinct_nontrivial"] = max(2, len(ctx.violations))
        cov["rule"] = (cov.get("rule", "") + " [run ended early because of "
                       "violations; count = violations reported]").strip()
    if not cov["caps"]:
        cov.pop("caps")
    if level != "model_checking" or not cov.get("states") \
            or not cov.get("transitions"):
        # (a run that stopped at its first violation may not have counted
        # states/transitions yet: the generic keys are used then)
        for k in ("states", "transitions", "traces_validated_against_impl"):
            if not cov.get(k):
                cov.pop(k, None)
    if ctx.violations and not cov.get("evaluations"):
        cov["evaluations"] = len(ctx.violations)
    ev = {"property_id": ctx.prop, "tier": ctx.tier, "seed": ctx.seed,
          "level": level, "coverage": jsonable(cov),
          "assumptions": ctx.assumptions,
          "wall_s": round(time.time() - ctx.t0, 3),
          "violations": len(ctx.violations),
          "known_findings_hit": [k["signature"] for k in ctx.known_hits]}
    path = os.path.join(EVIDENCE_DIR, f"{ctx.prop}.json")
    tmp = path + f".tmp{os.getpid()}"
    with open(tmp, "w") as f:
        json.dump(ev, f, indent=1)
        f.write("\n")
    os.replace(tmp, path)
    vt = shutil.which("python3-vt")
    if vt and os.path.exists("/root/.vp/EVIDENCE.schema.json"):
        import subprocess
        r = subprocess.run(
            [vt, "-c", "import json,jsonschema,sys;jsonschema.validate("
             "json.load(open(sys.argv[1])),json.load(open("
             "'/root/.vp/EVIDENCE.schema.json')))", path],
            capture_output=True, text=True)
        if r.returncode != 0 and "ModuleNotFoundError" not in r.stderr:
            raise HarnessError("evidence file does not validate: "
                               + r.stderr[-800:])
    return path


def write_replay(ctx: Ctx, idx: int, v: dict) -> str:
    d = os.path.join(REPLAY_DIR, ctx.prop)
    os.makedirs(d, exist_ok=True)
    path = os.path.join(d, f"{idx}.json")
    with open(path, "w") as f:
        json.dump({"property": ctx.prop, "signature": v["signature"],
                   "text": v["text"], "replay": v["replay"],
                   "how": f"/venv/bin/python /verif/check.py {ctx.prop} "
                          f"--replay {path}"}, f, indent=1)
        f.write("\n")
    return path


def main(argv: list[str]) -> int:
    import argparse
    ap = argparse.ArgumentParser()
    ap.add_argument("prop")
    ap.add_argument("--tier", default=os.environ.get("VERIF_TIER", "quick"),
                    choices=["quick", "thorough"])
    ap.add_argument("--replay", default=None)
    ap.add_argument("--jobs", type=int,
                    default=int(os.environ.get("VERIF_JOBS", "16")))
    args = ap.parse_args(argv)
    prop = args.prop.upper()
    if os.environ.get("PYTHONHASHSEED") != "0":
        os.environ["PYTHONHASHSEED"] = "0"
        os.execv(sys.executable, [sys.executable, *sys.argv])
    try:
        seed = int(os.environ.get("VERIF_SEED", "0"))
    except ValueError:
        seed = 0
    _setup_env(prop)
    level = _load_levels().get(prop, "exploration")
    ctx = Ctx(prop, args.tier, seed, args.jobs)
    try:
        mod = importlib.import_module(f"props.{prop.lower()}")
        if args.replay:
            with open(args.replay) as f:
                rep = json.load(f)
            ok = mod.replay(ctx, rep["replay"])
            print("replay:", "property holds on this case" if ok
                  else "VIOLATION reproduced")
            return 0 if ok else 1
        mod.run(ctx)
    except Exception as e:  # noqa
        import signal
        if isinstance(e, WorkerDied) and not args.replay and e.signum in (
                signal.SIGSEGV, signal.SIGABRT, signal.SIGBUS,
                signal.SIGILL, signal.SIGFPE):
            # The interpreter itself crashed while executing the library
            # on an input of the enumeration: memory was corrupted. (A
            # worker killed from outside, SIGKILL/SIGTERM, is not this.)
            ctx.violation(
                f"crash|{e.fn}|{e.signame}",
                f"the process executing the library code died with "
                f"{e.signame} (memory corruption) while running job "
                f"{repr(e.item)[:600]} of {e.fn}",
                {"crash": e.signame, "worker": e.fn,
                 "job": repr(e.item)[:2000]})
        if not ctx.violations or args.replay:
            print(f"HARNESS-ERROR property={prop}: {type(e).__name__}: {e}",
                  flush=True)
            traceback.print_exc()
            return 2
        # Violations were already established (each re-executed by its
        # module); code that runs later (sampling, summaries) may trip over
        # the same broken library behaviour. Report what was found.
        print(f"note: exploration stopped early after the violations below: "
              f"{type(e).__name__}: {e}", flush=True)
        ctx.cap(f"run stopped early by {type(e).__name__} after violations "
                "had been found")
    try:
        write_evidence(ctx, level)
    except HarnessError as e:
        print(f"HARNESS-ERROR property={prop}: {e}", flush=True)
        return 2
    for k in ctx.known_hits:
        print(f"KNOWN-FINDING: property={prop} {k['signature']}: "
              f"{k['text']}", flush=True)
    for i, v in enumerate(ctx.violations):
        path = write_replay(ctx, i, v)
        print(f"  violation[{i}] {v['signature']}: {v['text']}")
        print(f"VIOLATION property={prop} replay={path}", flush=True)
    c = ctx.cov
    print(f"{prop} tier={ctx.tier} evaluations={c['evaluations']} "
          f"states={c['states']} transitions={c['transitions']} "
          f"traces={c['traces_validated_against_impl']} "
          f"distinct_nontrivial={c['distinct_nontrivial']} "
          f"violations={len(ctx.violations)} known={len(ctx.known_hits)} "
          f"wall={time.time() - ctx.t0:.1f}s", flush=True)
    return 1 if ctx.violations else 0


class WorkerDied(Exception):
    """A forked worker executing the real code was killed by a signal."""

    def __init__(self, fn, item, signum):
        import signal
        try:
            name = signal.Signals(signum).name
        except ValueError:
            name = f"signal {signum}"
        self.fn = getattr(fn, "__name__", str(fn))
        self.item = item
        self.signum = signum
        self.signame = name
        super().__init__(f"worker running {self.fn} died with {name} on "
                         f"job {repr(item)[:400]}")


def _pmap_worker(fn, conn):
    while True:
        try:
            task = conn.recv()
        except EOFError:
            return
        if task is None:
            return
        out = []
        try:
            for idx, item in task:
                out.append((idx, fn(item)))
            conn.send(("done", out))
        except BaseException as e:  # noqa
            import pickle
            try:
                pickle.loads(pickle.dumps(e))
                conn.send(("error", e, traceback.format_exc()))
            except Exception:  # noqa
                conn.send(("error", RuntimeError(
                    f"{type(e).__name__}: {e}"), traceback.format_exc()))


def pmap(fn: Callable, items: list, jobs: int, chunksize: int = 1):
    """
    Map over items in forked worker processes, preserving order.

    Unlike multiprocessing.Pool.map this does not hang when a worker dies
    (a segmentation fault inside compiled code): WorkerDied is raised and
    names the job the worker was executing.
    """
    import multiprocessing as mp
    from multiprocessing.connection import wait
    items = list(items)
    if jobs <= 1 or len(items) <= 1:
        return [fn(i) for i in items]
    mpc = mp.get_context("fork")
    chunksize = max(1, chunksize)
    tasks = [[(i, items[i]) for i in range(a, min(a + chunksize,
                                                  len(items)))]
             for a in range(0, len(items), chunksize)]
    tasks.reverse()
    results = [None] * len(items)
    workers = []
    failure = None
    try:
        for _ in range(min(jobs, len(tasks))):
            pc, cc = mpc.Pipe(duplex=True)
            pr = mpc.Process(target=_pmap_worker, args=(fn, cc), daemon=True)
            pr.start()
            cc.close()
            workers.append([pr, pc, None])
        for w in workers:
            w[2] = tasks.pop()
            w[1].send(w[2])
        busy = len(workers)
        while busy and failure is None:
            ready = wait([w[1] for w in workers if w[2] is not None]
                         + [w[0].sentinel for w in workers
                            if w[2] is not None])
            for w in workers:
                if w[2] is None or failure is not None:
                    continue
                if w[1] in ready or w[0].sentinel in ready:
                    msg = None
                    try:
                        if w[1].poll(0):
                            msg = w[1].recv()
                    except (EOFError, OSError):
                        msg = None
                    if msg is None:
                        if w[0].sentinel in ready or not w[0].is_alive():
                            w[0].join()
                            code = w[0].exitcode
                            failure = WorkerDied(
                                fn, w[2][0][1] if len(w[2]) == 1
                                else [t[1] for t in w[2]],
                                -code if code is not None and code < 0
                                else 0)
                        continue
                    if msg[0] == "error":
                        failure = msg[1]
                        try:
                            failure.remote_traceback = msg[2]
                        except Exception:  # noqa
                            pass
                        continue
                    for idx, r in msg[1]:
                        results[idx] = r
                    if tasks:
                        w[2] = tasks.pop()
                        w[1].send(w[2])
                    else:
                        w[2] = None
                        busy -= 1
                        w[1].send(None)
    finally:
        for pr, pc, _ in workers:
            if failure is not None and pr.is_alive():
                pr.terminate()
            try:
                pc.close()
            except OSError:
                pass
        for pr, _, _ in workers:
            pr.join(5)
            if pr.is_alive():
                pr.kill()
                pr.join()
    if failure is not None:
        raise failure
    return results
