"""Compile the functions of a reference-model module with numba."""


def compile_module(mod, names):
    """
    Return a namespace in which the named functions of `mod` are njit-ed.

    The module source is executed in a fresh namespace; the functions are then
    replaced by their dispatchers, so calls between them resolve to the
    compiled versions. The interpreted originals in `mod` stay untouched (they
    are the same source, used for the interpreted cross-check).
    """
    import numba
    with open(mod.__file__) as f:
        src = f.read()
    ns: dict = {"__name__": mod.__name__ + "__jit"}
    exec(compile(src, mod.__file__, "exec"), ns)  # noqa: S102
    for n in names:
        ns[n] = numba.njit(cache=False)(ns[n])
    return ns
