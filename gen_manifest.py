#!/usr/bin/env python3
"""Generate MANIFEST.json from the table below (only built checks are claimed)."""
import json
import os

HERE = os.path.dirname(os.path.abspath(__file__))

# id: (level, technique, text, note)
T = {
 "C01": ("model_checking",
         "exhaustive prefix-tree exploration of the real decoder fold (all signed permutations of all small instances) against a cell-painting feasibility oracle; storage-type boundary families",
         "Every node of the signed-permutation tree of every instance within the stated size bounds is a real execution of both decoders, judged by an oracle that shares no code with the package's validator.",
         "Bounded to small bins/few items plus thin storage-edge families; the oracle is trusted."),
 "C02": ("model_checking",
         "explicit-state generation of every feasible packing of small instances (placement search), each evaluated by all seven real objectives against a per-cell recomputation; exact dominance sets",
         "All feasible layouts (not only decoder outputs) of every instance within the bounds, all row orders, all seven objectives, exact dominance over the enumerated sets.",
         "Bounded to small bins and few items."),
 "C03": ("model_checking",
         "exhaustive enumeration of small instances; explicit-state reachability search 'do the items fit into lb-1 bins?' as independent optimum oracle",
         "Lower bound of the real constructor compared with an explicit-state packing search and with the area bound for all instances within the bounds.",
         "Bounded bin/item sizes; the search is complete for integer placements."),
 "C04": ("fault_enumeration",
         "all feasible packings plus every single- and double-field corruption, validated by the real validate()/from_str()/Packing.from_log() against an independent feasibility predicate",
         "Deviation-bounded (0,1,2 corrupted fields) enumeration around every feasible packing of the small instances; full matrix space for 1-item cases.",
         "Corruption values from a finite alphabet around the legal ranges."),
 "C05": ("exploration",
         "bounded exhaustive enumeration of small matrices over a storage-boundary alphabet x all permutations against big-int sums",
         "All matrices over the alphabet for n<=3 (and 0/1/B matrices for n=4), all permutations, all permutation dtypes.",
         "Finite value alphabet chosen at integer-type boundaries."),
 "C06": ("model_checking",
         "stateless exploration of the real solve() loops under every scripted answer of the random source to a depth bound (also on a process seeded with a best tour, with the table-logging FEA variant and with 2^27-entry tables), long runs under cyclic scripts to an iteration horizon, plus kernel state-graph closure (fixpoint for the EA)",
         "Every behaviour of the two algorithms for all start tours and all draw scripts up to the depth bound; EA reachable (tour,length) graph explored to fixpoint through the real move kernel.",
         "Small symmetric instances; FEA depth-bounded."),
 "C07": ("model_checking",
         "exhaustive enumeration of all day-wise consistent 4-team plans (12^6, with byes 25^6, all single-cell corruptions), all 2-team plans, x constraint settings, real kernel inside a compiled driver vs. reference model; public objective on the same plans",
         "Every plan of the stated families is executed by the real count_errors and compared with a feasibility predicate and the documented per-rule count written from the statement.",
         "Team counts 2 and 4; finite settings alphabet; reference model trusted."),
 "C08": ("model_checking",
         "same exhaustive plan enumeration x distance matrices against a per-team walk model; every game->bye replacement; optimum over all error-free 4-team plans vs published bounds",
         "Every plan x every (day, team) bye replacement within the families is executed; published optima recomputed by complete enumeration.",
         "Team counts 2 and 4; finite matrix alphabet."),
 "C09": ("exploration",
         "bounded exhaustive enumeration of small flow/distance matrix pairs x all permutations vs big-int sums; all line wrappings of QAPLIB text",
         "All matrix pairs over the alphabets, all permutations, every composition of the token stream into lines.",
         "n<=3; finite value alphabet at storage-type boundaries."),
 "C10": ("fault_enumeration",
         "finite alphabet of (equations, controller) programs x inputs; every fault sequence of the integrator's retry loop injected through controllers; structural oracle + control replay + closed forms",
         "All programs of the alphabet and all fault sequences (0..5 faults, phase-specific) run to completion under a step horizon.",
         "Real-valued inputs restricted to a grid; tolerances fixed for the analytic comparison."),
 "C11": ("model_checking",
         "explicit-state exploration of all operation histories (evaluate/initialize/set_model/set_raw/get_differentials) on one objective object to a depth bound, replay on fresh objects as reference; the same for (real evaluate, begin, end, model evaluate) histories of the model-training objective; the real SurrogateOptimizer run over a finite configuration alphabet",
         "All histories up to the depth bound on real objects, values compared with fresh objects and collected data with a list model.",
         "Small rebuilt systems; finite parameter-vector alphabet."),
 "C12": ("exploration",
         "full product setup x instance x seed x budget, each run twice, independent feasibility and re-evaluation, log re-parse",
         "Every combination of the finite configuration alphabet is executed twice.",
         "Seeds and budgets are finite alphabets, not all seeds."),
 "C13": ("exploration",
         "re-run of the kernel drivers and of the other checks' exhaustive quick alphabets under numba bounds checking in child processes with a fresh cache, plus guard-zone buffers, on an extreme-index alphabet (all index pairs of the TSP move kernels, model-objective histories)",
         "All kernels on their exhaustive quick alphabets plus extreme inputs with NUMBA_BOUNDSCHECK=1; IndexError or guard damage is a violation.",
         "numba does not flag slices or wrap-around negative indices."),
 "C14": ("model_checking",
         "same prefix tree as C01 with per-node equality against a unit-step grid model of the documented rule; explicit-state exploration of decode/poison histories on one encoder object",
         "Every node of the tree compared with an independent executable model of the documented bottom-left rule; all histories to depth 2-3 for statelessness.",
         "Bounded instance sizes; model written from the documentation."),
 "C15": ("model_checking",
         "complete multiset-permutation trees through the real map_games on every prefix vs earliest-free-day model; search-space multiset checks for all (n, rounds) <= (16, 10)",
         "Complete trees for the small (n, rounds); BFS over distinct partial plans beyond.",
         "Tree completeness only for small (n, rounds)."),
 "C16": ("exploration",
         "parameter basis x state grids for every blueprint; all generated network programs in the stated architecture family executed against layer-by-layer models",
         "Every architecture (in,out 1..6, <=3 hidden layers of width 1..8) is generated and executed.",
         "Real inputs on grids; polynomial-determinacy argument for the polynomial controllers."),
 "C17": ("model_checking",
         "complete tree of decoder inputs over a 7-value alphabet per coordinate for tiny templates, independent packing search + painter as oracle",
         "All vectors over the alphabet for k=0..2 slack pairs for all tiny templates.",
         "Finite coordinate alphabet incl. float neighbours of -1, 0, 1."),
 "C18": ("exploration",
         "all line wrappings of 4 explicit formats; point-pair grids x 4 metrics vs exact rational TSPLIB95 definitions; all shipped tours",
         "Every composition of the token list into lines for small n; full point grid; every shipped instance/tour pair.",
         "Finite coordinate grid."),
 "C19": ("exploration",
         "bounded exhaustive enumeration of instances/packings/plans/orderings and of all 1-3 record tables, field-by-field equality after round trip",
         "All objects of the other properties' alphabets and all small tables over the record alphabet.",
         "Record alphabet finite."),
 "C20": ("model_checking",
         "all ordered pairs of permutations up to length 7 vs BFS distances in the Cayley graph of transpositions; all short object sequences x distance functions x powers x horizons vs counting model",
         "Complete enumeration of permutation pairs and of the instance alphabet; Cayley graph explored explicitly.",
         "Lengths <= 7; object values from a 4-value alphabet."),
}

# checks that are finished and verified silent on the unchanged tree
READY = {"C01", "C02", "C03", "C04", "C05", "C06", "C07", "C08", "C09", "C10", "C11", "C12", "C13", "C14", "C15", "C16", "C17", "C18", "C19", "C20"}

NOT_BUILT_REASON = ("check not built yet in this round (designed in "
                    "DESIGN.md section 3); not claimed until it exists")


def main() -> None:
    checks = []
    na = []
    for pid in sorted(T):
        lvl, tech, text, note = T[pid]
        if pid in READY and os.path.exists(
                os.path.join(HERE, "props", pid.lower() + ".py")):
            checks.append({
                "property_id": pid,
                "quick_cmd": f"/venv/bin/python /verif/check.py {pid} "
                             "--tier quick",
                "thorough_cmd": f"/venv/bin/python /verif/check.py {pid} "
                                "--tier thorough",
                "evidence_file": f"/verif/evidence/{pid}.json",
                "replay_cmd_template": f"/venv/bin/python /verif/check.py "
                                       f"{pid} --replay {{path}}",
                "engine": "mc",
                "level_claimed": {"category": lvl, "text": text,
                                  "design_ref": f"DESIGN.md section 3, {pid}"},
                "level_note": note,
                "technique": tech})
        else:
            na.append({"property_id": pid, "reason": NOT_BUILT_REASON})
    try:
        fixes = [ln.split()[0] for ln in os.popen(
            "git -C /repo log --format='%h %s' d7b6321..HEAD").read()
            .splitlines() if " fix:" in ln]
    except Exception:  # noqa
        fixes = []
    man = {
        "version": 1,
        "setup_cmd": "mkdir -p /verif/.cache /verif/evidence /verif/replays"
                     " && /venv/bin/python -m compileall -q /verif/mc "
                     "/verif/models /verif/props /verif/check.py",
        "hooks": {
            "guard": "MOPTIPYAPPS_VERIF",
            "enable": "no hook in the repository source is needed: checks "
                      "import the working tree of /repo directly (editable "
                      "install) and reach internals by name mangling",
            "baseline_off_cmd": "cd /repo && /venv/bin/python -m pytest -ra "
                                "-q -p no:cacheprovider --timeout=900 "
                                "--continue-on-collection-errors",
            "source_commits": [],
            "add_only": True},
        "engines": [{
            "name": "mc", "path": "/verif/mc",
            "serves_properties": [c["property_id"] for c in checks],
            "kind_free_text": "hand-written bounded exhaustive explorers "
            "(prefix-tree, explicit-state history BFS, input-space "
            "enumeration) executing the real code, numba drivers around the "
            "real kernels, reference models in /verif/models"}],
        "checks": checks,
        "not_applicable": na,
        "notes": "fix: commits in /repo (genuine defects found by the "
                 "checks): " + ", ".join(fixes) + ". See known_findings.json"
                 " and DESIGN.md."}
    with open(os.path.join(HERE, "MANIFEST.json"), "w") as f:
        json.dump(man, f, indent=1)
        f.write("\n")
    print(f"claimed {len(checks)}, not claimed {len(na)}")


if __name__ == "__main__":
    main()
