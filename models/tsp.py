"""
Reference models for the TSP properties C05 / C06.

Written from the documentation ("sum the distances from the k-th city to
the k+1-st city, then add the distance from the last city to the first";
"for each city the nearest / farthest neighbour"; "reverse the sequence from
i to j"; "(1+1) EA accepts if not worse"; "FFA: increment the frequency of
the current and of the new tour length, accept if the new one is not more
frequent").  The exact functions use Python integers (no fixed width); the
functions marked *numba subset* are executed both interpreted and compiled
(values there are bounded by 6 * 10^12 < 2^63).
"""
import itertools

import numpy as np


# --------------------------------------------------------------- exact models
def tour_length_exact(m, p):
    """Cyclic edge sum with Python integers; m = list of lists of int."""
    n = len(p)
    total = 0
    for k in range(n):
        total += int(m[int(p[k])][int(p[(k + 1) % n])])
    return total


def is_permutation(p, n):
    """Is p a permutation of 0..n-1?"""
    q = [int(v) for v in p]
    return len(q) == n and sorted(q) == list(range(n))


def is_symmetric(m):
    """m equals its transpose."""
    n = len(m)
    return all(m[i][j] == m[j][i] for i in range(n) for j in range(n))


def all_tour_lengths(m):
    """Dict: permutation tuple -> exact length, for every permutation."""
    n = len(m)
    return {p: tour_length_exact(m, p)
            for p in itertools.permutations(range(n))}


def represents(dtype, lo, hi):
    """Can the numpy integer dtype hold every integer of lo..hi?"""
    dt = np.dtype(dtype)
    if dt.kind not in "iu":
        return False
    info = np.iinfo(dt)
    return int(info.min) <= lo and hi <= int(info.max)


def signed_code(limit):
    """0..3: the most compact signed type able to hold -limit..limit."""
    if limit <= 127:
        return 0
    if limit <= 32767:
        return 1
    if limit <= 2147483647:
        return 2
    return 3


SIGNED = (np.int8, np.int16, np.int32, np.int64)


def reverse(p, i, j):
    """The tour with the section i..j (inclusive) reversed (new list)."""
    q = list(p)
    a, b = i, j
    while a < b:
        q[a], q[b] = q[b], q[a]
        a += 1
        b -= 1
    return q


def legal_moves(n):
    """
    The (i, j) pairs the two algorithms can end up applying.

    Both indices are drawn from 0..n-2 and ordered; i == j is a no-op and
    (0, n-2) is the reversal of everything but the last city: both are
    skipped by the loops.
    """
    return [(i, j) for i in range(n - 1) for j in range(i + 1, n - 1)
            if not (i == 0 and j == n - 2)]


def move_of_draws(a, b, n):
    """The move a pair of draws leads to, or None if the pair is skipped."""
    i, j = (a, b) if a <= b else (b, a)
    if i == j or (i == 0 and j == n - 2):
        return None
    return i, j


def ea_step(m, p, y, i, j):
    """(1+1) EA: accept the reversed tour iff it is not longer."""
    q = reverse(p, i, j)
    y2 = tour_length_exact(m, q)
    if y2 <= y:
        return q, y2
    return list(p), y


def fea_step(m, p, y, h, i, j):
    """(1+1) FEA step on the frequency dict h (modified)."""
    q = reverse(p, i, j)
    y2 = tour_length_exact(m, q)
    h[y] = h.get(y, 0) + 1
    h[y2] = h.get(y2, 0) + 1
    if h[y2] <= h[y]:
        return q, y2
    return list(p), y


# ------------------------------------------------------------- numba subset
def cyc_len(m, p):
    """Cyclic edge sum (numba subset; m must be an int64 matrix)."""
    n = p.shape[0]
    total = 0
    for k in range(n):
        nxt = k + 1
        if nxt == n:
            nxt = 0
        total += m[p[k], p[nxt]]
    return total


def is_perm(p, scratch):
    """Is p a permutation of 0..n-1 (numba subset)?"""
    n = p.shape[0]
    for k in range(n):
        scratch[k] = 0
    for k in range(n):
        v = p[k]
        if v < 0 or v >= n:
            return False
        if scratch[v] != 0:
            return False
        scratch[v] = 1
    return True


def perm_rank(p):
    """Lexicographic rank of a permutation (numba subset)."""
    n = p.shape[0]
    r = 0
    for a in range(n):
        c = 0
        for b in range(a + 1, n):
            if p[b] < p[a]:
                c += 1
        r = r * (n - a) + c
    return r


def rev_inplace(p, i, j):
    """Reverse p[i..j] by swapping (numba subset)."""
    while i < j:
        t = p[i]
        p[i] = p[j]
        p[j] = t
        i += 1
        j -= 1


# ------------------------------------------------------------------ alphabets
def perms_array(n, dtype=np.int64):
    """All permutations of 0..n-1, lexicographic (row index == perm_rank)."""
    return np.array(list(itertools.permutations(range(n))), dtype)


def offdiag_cells(n):
    return [(i, j) for i in range(n) for j in range(n) if i != j]


def upper_cells(n):
    return [(i, j) for i in range(n) for j in range(i + 1, n)]


def matrix_from_index(n, values, idx, symmetric):
    """
    The idx-th matrix over the value list (most significant cell first).

    Cells are the off-diagonal entries in row-major order (asymmetric) or
    the upper triangle mirrored (symmetric); index 0 is "all values[0]".
    """
    cells = upper_cells(n) if symmetric else offdiag_cells(n)
    k = len(values)
    m = [[0] * n for _ in range(n)]
    for c in range(len(cells) - 1, -1, -1):
        v = values[idx % k]
        idx //= k
        i, j = cells[c]
        m[i][j] = v
        if symmetric:
            m[j][i] = v
    return m


def n_matrices(n, values, symmetric):
    cells = n * (n - 1) // 2 if symmetric else n * (n - 1)
    return len(values) ** cells


def row_positive(m):
    """Every row has a positive off-diagonal entry (the quantifier)."""
    return all(max(v for j, v in enumerate(r) if j != i) > 0
               for i, r in enumerate(m))


def metric6_base(which):
    """Three 6-city metric base matrices (line, 2x3 grid, circle)."""
    if which == 0:
        pts = [(k, 0) for k in range(6)]
    elif which == 1:
        pts = [(k % 3, k // 3) for k in range(6)]
    else:
        pts = [(0, 1), (1, 0), (3, 0), (4, 1), (3, 2), (1, 2)]
    return [[abs(a[0] - b[0]) + abs(a[1] - b[1]) for b in pts] for a in pts]


def perturbed(base, bits):
    """base + 0/1 perturbation of the upper-triangle cells (mirrored)."""
    n = len(base)
    m = [list(r) for r in base]
    cells = upper_cells(n)
    for c, (i, j) in enumerate(cells):
        if (bits >> (len(cells) - 1 - c)) & 1:
            m[i][j] += 1
            m[j][i] += 1
    return m
