"""
Reference models for the Traveling Tournament Problem objectives.

Written from the documentation of the rules (day-wise / run-wise), in the
numba-compatible subset of Python so that the same source is executed both
interpreted (small alphabets) and compiled (bulk alphabets).
"""
import numpy as np


def feasible(y, rounds, hmin, hmax, amin, amax, smin, smax):
    """Is the plan a feasible round-robin schedule? (the C07 statement)."""
    days, n = y.shape
    # every team plays on every day, opponents and roles mutually consistent
    for d in range(days):
        for t in range(n):
            v = y[d, t]
            if v == 0:
                return False
            o = (v if v > 0 else -v) - 1
            if o == t or o >= n:
                return False
            w = y[d, o]
            if v > 0:
                if w != -(t + 1):
                    return False
            elif w != (t + 1):
                return False
    # each pairing `rounds` times, balanced roles, separation
    for i in range(n):
        for j in range(i + 1, n):
            hi = 0
            hj = 0
            last = -1
            for d in range(days):
                v = y[d, i]
                if v == j + 1:
                    hi += 1
                elif v == -(j + 1):
                    hj += 1
                else:
                    continue
                if last >= 0:
                    s = d - last - 1
                    if s < smin or s > smax:
                        return False
                last = d
            if hi + hj != rounds:
                return False
            if hi - hj > 1 or hj - hi > 1:
                return False
    # every maximal home / away run within its range
    for t in range(n):
        run = 1
        for d in range(1, days + 1):
            if d < days and ((y[d, t] > 0) == (y[d - 1, t] > 0)):
                run += 1
            else:
                if y[d - 1, t] > 0:
                    if run < hmin or run > hmax:
                        return False
                elif run < amin or run > amax:
                    return False
                run = 1
    return True


def consistent(y):
    """
    Is the plan mutually consistent (byes permitted)?

    Every non-zero entry names another team whose entry on that day names
    this team with the opposite role.
    """
    days, n = y.shape
    for d in range(days):
        for t in range(n):
            v = y[d, t]
            if v == 0:
                continue
            o = (v if v > 0 else -v) - 1
            if o == t or o >= n:
                return False
            w = y[d, o]
            if v > 0:
                if w != -(t + 1):
                    return False
            elif w != (t + 1):
                return False
    return True


def rule_count(y, rounds, hmin, hmax, amin, amax, smin, smax):
    """
    The documented per-rule error count of a mutually consistent plan.

    * 1 per bye; a bye ends the run before it
    * per maximal home/away run of length L: max(0, L - max) (one per day
      beyond the maximum) + max(0, min - L) (shortfall when the run ends)
    * per pairing and per pair of consecutive meetings with s days in
      between: max(0, smin - s) + max(0, s - smax), counted once
    * per pairing: |ij + ji - rounds| + max(0, |ij - ji| - 1)
    """
    days, n = y.shape
    e = 0
    for t in range(n):
        kind = 0  # 0 none, 1 home, -1 away
        run = 0
        for d in range(days + 1):
            k = 0
            if d < days:
                v = y[d, t]
                if v == 0:
                    e += 1
                elif v > 0:
                    k = 1
                else:
                    k = -1
            if k == kind and k != 0:
                run += 1
                continue
            if kind == 1:
                if run > hmax:
                    e += run - hmax
                if run < hmin:
                    e += hmin - run
            elif kind == -1:
                if run > amax:
                    e += run - amax
                if run < amin:
                    e += amin - run
            kind = k
            run = 1
    for i in range(n):
        for j in range(i + 1, n):
            hi = 0
            hj = 0
            last = -1
            for d in range(days):
                v = y[d, i]
                if v == j + 1:
                    hi += 1
                elif v == -(j + 1):
                    hj += 1
                else:
                    continue
                if last >= 0:
                    s = d - last - 1
                    if s < smin:
                        e += smin - s
                    elif s > smax:
                        e += s - smax
                last = d
            tot = hi + hj - rounds
            e += tot if tot >= 0 else -tot
            df = hi - hj
            if df < 0:
                df = -df
            if df > 1:
                e += df - 1
    return e


def plan_length(y, dist, penalty):
    """
    The travel length: per-team walk.

    Each team starts at home, moves to the venue of each away opponent,
    is at home for home games, stays where it is on a bye (penalised), and
    returns home after the last day.
    """
    days, n = y.shape
    total = 0
    for t in range(n):
        # the sequence of venues of team t
        where = t
        for d in range(days):
            v = y[d, t]
            if v == 0:
                total += penalty
                continue
            venue = t if v > 0 else (-v) - 1
            if venue != where:
                total += dist[where, venue]
            where = venue
        if where != t:
            total += dist[where, t]
    return total


def day_configs(n, with_byes=False):
    """All mutually consistent day rows for n teams (list of tuples)."""
    res = []

    def rec(row, free):
        if not free:
            res.append(tuple(row))
            return
        a = free[0]
        rest = free[1:]
        if with_byes:
            rec(row, rest)
        for k, b in enumerate(rest):
            rest2 = rest[:k] + rest[k + 1:]
            for home in (True, False):
                r = list(row)
                if home:
                    r[a] = b + 1
                    r[b] = -(a + 1)
                else:
                    r[a] = -(b + 1)
                    r[b] = a + 1
                rec(r, rest2)
    rec([0] * n, list(range(n)))
    res.sort(key=lambda r: (sum(1 for v in r if v == 0), r))
    return res


def day_config_array(n, with_byes=False):
    return np.array(day_configs(n, with_byes), dtype=np.int64)
