"""
Reference models for the controlled-system simulation (C10, C11).

Written from the documentation of ``run_ode`` / ``j_from_ode`` /
``diff_from_ode`` and of the two figure-of-merit objectives; nothing of the
package is imported. All models work on plain Python lists of floats (the
rows of a result matrix: state, controls, time).

* :func:`check_rows` - structural invariants of a simulation result.
* :func:`j_exact` - the figure of merit as an exact rational number.
* :func:`diff_model` - finite differences, operation by operation in IEEE
  doubles (so that equality can be demanded bitwise).
* :func:`lin_exact` - closed forms of the linear test systems.
* :func:`combine` - the two ways of combining per-training-case values.
"""
import math
from fractions import Fraction

LIMIT = 1e10          # documented sane range (-1e10, 1e10)
FAIL_CTRL = 1e100     # control value of the failure row
FAIL_J = 1e200        # figure of merit / objective value of a failure
J_MAX = 1e100         # largest acceptable figure of merit


# ---------------------------------------------------------------- structure
def is_failure_row(rows, start, n):
    """Exactly one row: start state, every control 1e100, time 0."""
    if len(rows) != 1:
        return False
    r = rows[0]
    return len(r) > n + 1 and list(r[:n]) == list(start) \
        and all(c == FAIL_CTRL for c in r[n:-1]) and r[-1] == 0.0


def check_rows(rows, start, steps, t_limit, n, cd):
    """
    Check one simulation result against the statement of C10.

    Returns (kind, problems): kind is "full", "fail" or "malformed";
    problems is a list of (tag, text). The control entries are not checked
    here (the caller replays the controller).
    """
    probs = []
    dim = n + cd + 1
    if any(len(r) != dim for r in rows):
        return "malformed", [("shape", f"row length is not {dim}")]
    if len(rows) == 1 and steps != 1:
        if is_failure_row(rows, start, n):
            return "fail", probs
        return "malformed", [("failure-row", f"single row {rows[0]} is not "
                              f"(start, {FAIL_CTRL}, 0)")]
    if len(rows) != steps:
        return "malformed", [("rows", f"{len(rows)} rows instead of {steps} "
                              "or 1")]
    if rows[0][-1] != 0.0:
        probs.append(("t0", f"first time is {rows[0][-1]!r}, not 0"))
    for i in range(1, len(rows)):
        if not rows[i][-1] > rows[i - 1][-1]:
            probs.append(("time-order", f"t[{i}]={rows[i][-1]!r} is not "
                          f"greater than t[{i - 1}]={rows[i - 1][-1]!r}"))
            break
    if not rows[-1][-1] <= t_limit:
        probs.append(("time-limit", f"last time {rows[-1][-1]!r} exceeds "
                      f"the limit {t_limit!r}"))
    if list(rows[0][:n]) != list(start):
        probs.append(("start", f"row 0 state {rows[0][:n]} is not the "
                      f"start {list(start)}"))
    for i, r in enumerate(rows):
        bad = [v for v in r if not (math.isfinite(v) and -LIMIT < v < LIMIT)]
        if bad:
            probs.append(("range", f"row {i} holds {bad[0]!r}, outside "
                          f"(-{LIMIT}, {LIMIT}) or not finite"))
            break
    return "full", probs


# ---------------------------------------------------------- figure of merit
def j_exact(rows, n, use, gamma):
    """
    The documented figure of merit, exactly.

    sum over all rows i but the last of (t[i+1]-t[i]) * (gamma * sum of the
    squared controls of row i + [i >= 1] * sum of the squares of the first
    ``use`` state variables of row i), divided by the simulated time t[-1].
    ``use <= 0`` means the whole state. ``None`` for a failure row.
    """
    if len(rows) <= 1:
        return None
    if use <= 0:
        use = n
    g = Fraction(gamma)
    total = Fraction(0)
    for i in range(len(rows) - 1):
        r = rows[i]
        dt = Fraction(rows[i + 1][-1]) - Fraction(r[-1])
        acc = Fraction(0)
        for c in r[n:-1]:
            f = Fraction(c)
            acc += f * f
        acc *= g
        if i >= 1:
            for d in range(use):
                f = Fraction(r[d])
                acc += f * f
        total += dt * acc
    return total / Fraction(rows[-1][-1])


def j_float(rows, n, use, gamma):
    """The figure of merit as a double (or the failure value)."""
    j = j_exact(rows, n, use, gamma)
    return FAIL_J if j is None else float(j)


def rel_close(got, exp, rel=1e-12):
    """|got - exp| <= rel * max(|exp|, tiny); exp may be a Fraction."""
    if isinstance(got, float) and not math.isfinite(got):
        return False
    e = float(exp)
    if e == 0.0:
        return abs(got) <= 1e-300
    return abs(Fraction(got) - Fraction(exp)) <= Fraction(rel) * abs(
        Fraction(exp))


# ------------------------------------------------------- finite differences
def diff_model(rows, n):
    """
    (state+control rows without the last, forward difference quotients).

    Every quotient is (s[i+1][d] - s[i][d]) / (t[i+1] - t[i]) in doubles.
    """
    sc = [list(r[:-1]) for r in rows[:-1]]
    df = []
    for i in range(len(rows) - 1):
        dt = rows[i + 1][-1] - rows[i][-1]
        df.append([(rows[i + 1][d] - rows[i][d]) / dt for d in range(n)])
    return sc, df


# -------------------------------------------------------- linear test systems
def _exp(v):
    try:
        return math.exp(v)
    except OverflowError:
        return math.inf


def _expm1(v):
    try:
        return math.expm1(v)
    except OverflowError:
        return math.inf


def _mul(x, e):
    """x * e with 0 * inf = 0 (a zero coefficient stays zero)."""
    return 0.0 if x == 0.0 else x * e


def lin_exact(a, ctrl, s0, t):
    """
    Closed form of  ds_i/dt = a*s_i + u  at time t, all components.

    ctrl = ("const", v): u = v         -> s_i = s_i0 e^{at} + v (e^{at}-1)/a
    ctrl = ("ks0", k):   u = k * s_0
                         -> s_i = (s_i0 - s_00) e^{at} + s_00 e^{(a+k)t}
    Returns (state list, control value).
    """
    kind, p = ctrl
    eat = _exp(a * t)
    if kind == "const":
        grow = t if a == 0.0 else _expm1(a * t) / a
        return [_mul(x, eat) + _mul(p, grow) for x in s0], p
    if kind == "ks0":
        eakt = _exp((a + p) * t)
        st = [_mul(x - s0[0], eat) + _mul(s0[0], eakt) for x in s0]
        return st, p * st[0]
    raise ValueError(kind)


def lin_envelope(a, ctrl, s0, t_limit, points=400):
    """Largest |state|, |control| and |derivative| over [0, t_limit]."""
    m = 0.0
    for j in range(points + 1):
        t = t_limit * j / points
        st, u = lin_exact(a, ctrl, s0, t)
        m = max(m, abs(u), max(abs(x) for x in st),
                max(abs(a * x + u) for x in st))
        if not math.isfinite(m):
            return math.inf
    return m


# ------------------------------------------------------------- objectives
def combine(js, variant):
    """
    Objective value from the per-training-case figures of merit.

    variant "mean": arithmetic mean; "le": exp(mean(log(J+1))) - 1.
    Any J outside [0, 1e100] (a failure) gives 1e200, and so does a combined
    value outside that range. Returns (value, is_failure).
    """
    for j in js:
        if not 0.0 <= j <= J_MAX:
            return FAIL_J, True
    if variant == "mean":
        z = float(sum(Fraction(j) for j in js) / len(js))
    elif variant == "le":
        z = math.expm1(math.fsum(math.log1p(j) for j in js) / len(js))
    else:
        raise ValueError(variant)
    if not 0.0 <= z <= J_MAX:
        return FAIL_J, True
    return z, False


def first_failure(js):
    """Index of the first training case whose J is a failure, or None."""
    for i, j in enumerate(js):
        if not 0.0 <= j <= J_MAX:
            return i
    return None
