"""
Reference models for C20 (one-dimensional ordering, swap distance).

Written from the documentation, with counting and explicit search only:

* merging: objects are taken in sequence order; an object at distance zero
  from an already kept object is represented by the FIRST such kept object,
  otherwise it is kept itself (and gets the next index);
* rank of j seen from i: 1 + number of strictly nearer others + half the
  number of other objects that are exactly as far as j (average rank),
  handled here as the doubled integer 2 + 2 * nearer + (ties - 1);
* swap distance: length of a shortest path in the Cayley graph whose edges
  exchange the contents of two positions (breadth-first search, no cycle
  formula).

The functions in the second half are written in the numba subset; they are
run interpreted (small lengths) and compiled (bulk) and must agree.
"""
import itertools
from collections import deque

import numpy as np


# ------------------------------------------------------------------ instances
def dist_abs(a, b):
    return abs(a - b)


def dist_sq(a, b):
    return abs(a * a - b * b)


def dist_near_zero(a, b):
    """Zero for neighbours too: d(0,1) = d(1,2) = 0 but d(0,2) = 2."""
    d = abs(a - b)
    return 0 if d <= 1 else d


def dist_capped(a, b):
    """Real-valued and capped: many ties."""
    return min(abs(a - b), 1.5)


def dist_discrete(a, b):
    """The discrete metric: all distinct objects are equally far (n-way ties)."""
    return 0 if a == b else 1


def dist_hamming(a, b):
    """Number of differing bits (three-way ties and more)."""
    return bin(a ^ b).count("1")


DISTS = {"abs": dist_abs, "sq": dist_sq, "near0": dist_near_zero,
         "cap": dist_capped, "disc": dist_discrete, "ham": dist_hamming}


def merge(values, dist):
    """
    Merge objects at distance zero.

    :return: (kept, rep): `kept` = original positions of the kept objects in
        order, `rep[pos]` = index (into kept) of the representative of the
        object at original position `pos`.
    """
    kept = []
    rep = []
    for pos, v in enumerate(values):
        for k, kp in enumerate(kept):
            if dist(values[kp], v) == 0:
                rep.append(k)
                break
        else:
            kept.append(pos)
            rep.append(len(kept) - 1)
    return kept, rep


def ranks2(values, kept, dist):
    """Doubled average rank of j among the others seen from i (0 on i=j)."""
    n = len(kept)
    d = [[dist(values[kept[min(i, j)]], values[kept[max(i, j)]])
          if i != j else 0 for j in range(n)] for i in range(n)]
    r2 = [[0] * n for _ in range(n)]
    for i in range(n):
        for j in range(n):
            if i == j:
                continue
            nearer = sum(1 for k in range(n) if k != i and d[i][k] < d[i][j])
            ties = sum(1 for k in range(n) if k != i and d[i][k] == d[i][j])
            r2[i][j] = 2 * (1 + nearer) + (ties - 1)
    return d, r2


# ------------------------------------------------- swap distance: interpreted
def bfs_swaps(src):
    """Shortest number of position exchanges from `src` to every arrangement."""
    src = tuple(src)
    n = len(src)
    dist = {src: 0}
    todo = deque([src])
    pairs = list(itertools.combinations(range(n), 2))
    expansions = 0
    while todo:
        cur = todo.popleft()
        dc = dist[cur] + 1
        for a, b in pairs:
            nxt = list(cur)
            nxt[a], nxt[b] = nxt[b], nxt[a]
            nxt = tuple(nxt)
            expansions += 1
            if nxt not in dist:
                dist[nxt] = dc
                todo.append(nxt)
    return dist, expansions


# ----------------------------------- swap distance: numba subset (run twice)
def perm_table(n):
    """All permutations of 0..n-1 in lexicographic order."""
    return np.array(list(itertools.permutations(range(n))), np.int64)


def perm_rank(p, n):
    """Lexicographic rank of p (Lehmer code, Horner scheme)."""
    r = 0
    for i in range(n):
        c = 0
        for j in range(i + 1, n):
            if p[j] < p[i]:
                c += 1
        r = r * (n - i) + c
    return r


def make_bfs_table(rank):
    """Build the search around a (plain or compiled) `perm_rank`."""
    def bfs_table(table, src, dist, queue, tmp):
        """
        Breadth-first search over position exchanges from table[src].

        Fills dist[k] = fewest exchanges from table[src] to table[k];
        returns the number of expanded edges.
        """
        n = table.shape[1]
        dist[:] = -1
        dist[src] = 0
        queue[0] = src
        head = 0
        tail = 1
        edges = 0
        while head < tail:
            cur = queue[head]
            head += 1
            for a in range(n - 1):
                for b in range(a + 1, n):
                    for k in range(n):
                        tmp[k] = table[cur, k]
                    t = tmp[a]
                    tmp[a] = tmp[b]
                    tmp[b] = t
                    r = rank(tmp, n)
                    edges += 1
                    if dist[r] < 0:
                        dist[r] = dist[cur] + 1
                        queue[tail] = r
                        tail += 1
        return edges
    return bfs_table
