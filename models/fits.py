"""Explicit-state reachability search: do the items fit into m bins?"""


_PL = {}


def placements(w, h, W, H):
    """All position masks of a w x h rectangle in a W x H bin (bit x*H+y)."""
    key = (w, h, W, H)
    if key in _PL:
        return _PL[key]
    res = []
    for x in range(W - w + 1):
        for y in range(H - h + 1):
            m = 0
            for xx in range(x, x + w):
                for yy in range(y, y + h):
                    m |= 1 << (xx * H + yy)
            res.append((m, x, y))
    if len(_PL) < 5000:
        _PL[key] = res
    return res


def normal_positions(items, W, H):
    """
    Candidate coordinates by the normal-pattern argument.

    Every feasible packing can be pushed left and down until each item
    touches the wall or another item on its left and below; then its x is a
    sum of widths (in some orientation) of other items, its y a sum of
    heights. So only subset sums of the side lengths need to be tried.
    """
    sides = []
    for (w, h) in items:
        sides.append((w, h))
    sums = {0}
    for (w, h) in sides:
        new = set()
        for s0 in sums:
            for d in {w, h}:
                if s0 + d <= max(W, H):
                    new.add(s0 + d)
        sums |= new
    return sorted(sums)


def fits(items, m, W, H, want_cert=False, stats=None, normal=None):
    """
    Can all items (list of (w, h)), rotation allowed, be placed in m bins?

    Depth-first search over states (sorted tuple of bin occupancy masks, index
    of next item); items in decreasing area order; bins are interchangeable,
    so masks are kept sorted - merging only states with identical futures.
    Returns a certificate (list of (w, h, bin, x, y)) or True / None.
    """
    if m <= 0:
        return None
    items = sorted(items, key=lambda t: (-t[0] * t[1], t))
    if sum(w * h for w, h in items) > m * W * H:
        return None
    if normal is None:
        normal = W * H > 64
    cand = set(normal_positions(items, W, H)) if normal else None
    pl = {}
    for (w, h) in set(items):
        opts = []
        for (ww, hh) in {(w, h), (h, w)}:
            if ww <= W and hh <= H:
                opts += [(mk, x, y, ww, hh)
                         for (mk, x, y) in placements(ww, hh, W, H)
                         if cand is None or (x in cand and y in cand)]
        pl[(w, h)] = opts
    seen = set()
    cert = []

    def rec(idx, bins):
        if idx == len(items):
            return True
        key = (idx, bins)
        if key in seen:
            return False
        seen.add(key)
        if stats is not None:
            stats[0] += 1
        it = items[idx]
        tried_empty = False
        for b in range(len(bins)):
            if bins[b] == 0:
                if tried_empty:
                    continue
                tried_empty = True
            if b > 0 and bins[b] == bins[b - 1]:
                continue  # identical bins: identical futures
            for (mk, x, y, ww, hh) in pl[it]:
                if bins[b] & mk:
                    continue
                if bins[b] == 0 and (x or y):
                    # an empty bin: w.l.o.g. ... no, keep all positions
                    pass
                nb = list(bins)
                nb[b] |= mk
                nb.sort(reverse=True)
                if rec(idx + 1, tuple(nb)):
                    if want_cert:
                        cert.append((ww, hh, bins[b], x, y))
                    return True
        return False
    ok = rec(0, tuple([0] * m))
    if not ok:
        return None
    return cert if want_cert else True


def min_bins(items, W, H, stats=None):
    """The optimum number of bins by iterating fits()."""
    m = max(1, -(-sum(w * h for w, h in items) // (W * H)))
    while not fits(items, m, W, H, stats=stats):
        m += 1
    return m
