"""Explicit-state reachability search: do the items fit into m bins?"""


def placements(w, h, W, H):
    """All position masks of a w x h rectangle in a W x H bin (bit x*H+y)."""
    res = []
    for x in range(W - w + 1):
        for y in range(H - h + 1):
            m = 0
            for xx in range(x, x + w):
                for yy in range(y, y + h):
                    m |= 1 << (xx * H + yy)
            res.append((m, x, y))
    return res


def fits(items, m, W, H, want_cert=False, stats=None):
    """
    Can all items (list of (w, h)), rotation allowed, be placed in m bins?

    Depth-first search over states (sorted tuple of bin occupancy masks, index
    of next item); items in decreasing area order; bins are interchangeable,
    so masks are kept sorted - merging only states with identical futures.
    Returns a certificate (list of (w, h, bin, x, y)) or True / None.
    """
    if m <= 0:
        return None
    items = sorted(items, key=lambda t: (-t[0] * t[1], t))
    if sum(w * h for w, h in items) > m * W * H:
        return None
    pl = {}
    for (w, h) in set(items):
        opts = []
        for (ww, hh) in {(w, h), (h, w)}:
            if ww <= W and hh <= H:
                opts += [(mk, x, y, ww, hh)
                         for (mk, x, y) in placements(ww, hh, W, H)]
        pl[(w, h)] = opts
    seen = set()
    cert = []

    def rec(idx, bins):
        if idx == len(items):
            return True
        key = (idx, bins)
        if key in seen:
            return False
        seen.add(key)
        if stats is not None:
            stats[0] += 1
        it = items[idx]
        tried_empty = False
        for b in range(len(bins)):
            if bins[b] == 0:
                if tried_empty:
                    continue
                tried_empty = True
            if b > 0 and bins[b] == bins[b - 1]:
                continue  # identical bins: identical futures
            for (mk, x, y, ww, hh) in pl[it]:
                if bins[b] & mk:
                    continue
                if bins[b] == 0 and (x or y):
                    # an empty bin: w.l.o.g. ... no, keep all positions
                    pass
                nb = list(bins)
                nb[b] |= mk
                nb.sort(reverse=True)
                if rec(idx + 1, tuple(nb)):
                    if want_cert:
                        cert.append((ww, hh, bins[b], x, y))
                    return True
        return False
    ok = rec(0, tuple([0] * m))
    if not ok:
        return None
    return cert if want_cert else True


def min_bins(items, W, H, stats=None):
    """The optimum number of bins by iterating fits()."""
    m = max(1, -(-sum(w * h for w, h in items) // (W * H)))
    while not fits(items, m, W, H, stats=stats):
        m += 1
    return m
