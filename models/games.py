"""
Reference model of the game-permutation encoding of the TTP (property C15).

Written from the documentation of ``moptipyapps.ttp.game_encoding`` and not
from its code:

* "There are n(n-1) possible games between n teams, distinguishing home and
  away teams" and the diagonal (a team against itself) is skipped: the game
  ids are therefore the positions in the list of all ordered pairs
  ``(home, away)`` with ``home != away`` in lexicographic order. The model
  builds that list (no division, no modulo).
* "each game is placed at the earliest day at which both involved teams do
  not yet have other games. If no such slot is available, this game is not
  placed at all."  The model keeps, per team, the *set of busy days* as a bit
  mask and takes the lowest day that is in neither set; the plan matrix is
  only written as a consequence of a placement and never read.

All functions are in the numba-compatible subset of Python: they are executed
interpreted (Python ints in a list as bit masks, any number of days) and
compiled (int64 masks, at most 62 days) from the same source.
"""
import numpy as np


def game_table(n):
    """Row g = (home, away) of game id g: all ordered pairs, no diagonal."""
    t = np.empty((n * (n - 1), 2), np.int64)
    k = 0
    for home in range(n):
        for away in range(n):
            if away != home:
                t[k, 0] = home
                t[k, 1] = away
                k += 1
    return t


def earliest_free_day(busy_home, busy_away, days):
    """Lowest day in 0..days-1 contained in neither busy set, else -1."""
    both = busy_home | busy_away
    d = 0
    while d < days:
        if ((both >> d) & 1) == 0:
            return d
        d += 1
    return -1


def decode_model(x, table, busy, ym):
    """
    Fold the games of ``x`` into the plan ``ym`` by the documented rule.

    ``busy`` is scratch of length n (a list of Python ints or an int64 array).
    Returns the number of dropped games.
    """
    days, n = ym.shape
    for t in range(n):
        busy[t] = 0
    ym[:, :] = 0
    dropped = 0
    for i in range(len(x)):
        g = int(x[i])
        home = table[g, 0]
        away = table[g, 1]
        d = earliest_free_day(busy[home], busy[away], days)
        if d < 0:
            dropped += 1
            continue
        busy[home] = busy[home] | (1 << d)
        busy[away] = busy[away] | (1 << d)
        ym[d, home] = away + 1
        ym[d, away] = -(home + 1)
    return dropped


def game_index(table, n):
    """Inverse of the table: inv[home, away] = game id (-1 on the diagonal)."""
    inv = np.full((n, n), -1, np.int64)
    for g in range(table.shape[0]):
        inv[table[g, 0], table[g, 1]] = g
    return inv


def plan_defect(y, x, inv, cnt):
    """
    Check the consequences named in the statement on a decoded plan.

    ``cnt`` is scratch of length n*(n-1). Returns 0 if all hold, else
    1 = a cell outside -n..n, 2 = a team plays itself, 3 = not mutually
    consistent, 4 = a team is named by two teams on one day, 5 = a game is
    scheduled more often than ``x`` contains it.
    """
    days, n = y.shape
    for g in range(cnt.shape[0]):
        cnt[g] = 0
    for i in range(len(x)):
        cnt[int(x[i])] += 1
    for d in range(days):
        for t in range(n):
            v = int(y[d, t])
            if v == 0:
                continue
            if v > n or v < -n:
                return 1
            o = (v if v > 0 else -v) - 1
            if o == t:
                return 2
            w = int(y[d, o])
            if v > 0:
                if w != -(t + 1):
                    return 3
            elif w != t + 1:
                return 3
        for t in range(n):
            refs = 0
            for u in range(n):
                v = int(y[d, u])
                if v != 0 and (v if v > 0 else -v) - 1 == t:
                    refs += 1
            if refs > 1:
                return 4
    for d in range(days):
        for t in range(n):
            v = int(y[d, t])
            if v > 0:  # t is home against v-1
                g = inv[t, v - 1]
                cnt[g] -= 1
                if cnt[g] < 0:
                    return 5
    return 0


def multiset_permutations(counts):
    """Number of permutations with repetition of a multiset (exact)."""
    from math import factorial
    r = factorial(sum(counts))
    for c in counts:
        r //= factorial(c)
    return r


def tree_nodes(counts):
    """Number of distinct prefixes (incl. the empty one) of all permutations."""
    from functools import lru_cache

    @lru_cache(maxsize=None)
    def rec(c):
        s = 1
        for i, v in enumerate(c):
            if v > 0:
                s += rec(tuple(sorted(c[:i] + (v - 1,) + c[i + 1:])))
        return s
    return rec(tuple(sorted(counts)))
