"""
Reference models for 2D bin packing (numba-compatible subset of Python).

* ``paint_check``: the cell-painting feasibility oracle (C01/C04): every
  rectangle is painted on a per-bin cell grid; shares no arithmetic with
  ``PackingSpace.validate``.
* ``ibl_place``: the documented "improved bottom left" rule as a *unit-step*
  simulation: an item starts with its right edge at the right end of the bin
  and its bottom on top of the bin; as long as it can, it moves one unit down;
  if it cannot, it moves one unit left (so a left move is abandoned as soon as
  the item can fall again); it stops when neither is possible.
"""
import numpy as np

# feasibility codes
OK = 0
BAD_ID = 1
BAD_DIMS = 2
OUTSIDE = 3
OVERLAP = 4
BAD_BIN = 5
BIN_GAP = 6
BAD_COUNT = 7
BAD_NBINS = 8
NEGATIVE = 9


def paint_check(y, k, inst, W, H, n_bins, grid, full):
    """
    Check rows 0..k-1 of y by painting them on grid[bin, x, y].

    grid must be (>= number of bins, W, H) and is cleared here.
    If full: also check multiplicities against inst and that bins are 1..m
    without gaps and n_bins == m.
    Returns a feasibility code.
    """
    nt = inst.shape[0]
    maxbin = 0
    for i in range(k):
        b = y[i, 1]
        if b > maxbin:
            maxbin = b
    if maxbin > grid.shape[0]:
        return BAD_BIN
    for b in range(maxbin):
        for xx in range(W):
            for yy in range(H):
                grid[b, xx, yy] = 0
    for i in range(k):
        iid = y[i, 0]
        b = y[i, 1]
        x0 = y[i, 2]
        y0 = y[i, 3]
        x1 = y[i, 4]
        y1 = y[i, 5]
        if iid < 1 or iid > nt:
            return BAD_ID
        if b < 1:
            return BAD_BIN
        if x0 < 0 or y0 < 0 or x1 < 0 or y1 < 0:
            return NEGATIVE
        w = x1 - x0
        h = y1 - y0
        iw = inst[iid - 1, 0]
        ih = inst[iid - 1, 1]
        if not ((w == iw and h == ih) or (w == ih and h == iw)):
            return BAD_DIMS
        if x1 > W or y1 > H:
            return OUTSIDE
        for xx in range(x0, x1):
            for yy in range(y0, y1):
                if grid[b - 1, xx, yy] != 0:
                    return OVERLAP
                grid[b - 1, xx, yy] = 1
    # bins contiguous
    for b in range(1, maxbin + 1):
        found = False
        for i in range(k):
            if y[i, 1] == b:
                found = True
                break
        if not found:
            return BIN_GAP
    if n_bins != maxbin:
        return BAD_NBINS
    if full:
        for t in range(nt):
            c = 0
            for i in range(k):
                if y[i, 0] == t + 1:
                    c += 1
            if c != inst[t, 2]:
                return BAD_COUNT
    return OK


def _free(rects, k, b, nx, ny, w, h):
    """May an item w x h sit at (nx, ny) in bin b given rects[0..k-1]?"""
    if nx < 0 or ny < 0:
        return False
    for i in range(k):
        if rects[i, 1] != b:
            continue
        if rects[i, 2] < nx + w and nx < rects[i, 4] \
                and rects[i, 3] < ny + h and ny < rects[i, 5]:
            return False
    return True


def ibl_try_bin(rects, k, b, w, h, W, H, out):
    """Drop item w x h into bin b by unit steps; out = (x, y). True if fits."""
    x = W - w
    y = H
    while True:
        if _free(rects, k, b, x, y - 1, w, h):
            y -= 1
            continue
        if _free(rects, k, b, x - 1, y, w, h):
            x -= 1
            continue
        break
    out[0] = x
    out[1] = y
    return (x + w <= W) and (y + h <= H)


def ibl_place(rects, k, nb, item, inst, W, H, enc, out):
    """
    Place the signed item as row k of rects; returns the new bin count.

    enc 1: only the last opened bin is tried; enc 2: bins 1..nb in order.
    """
    if item < 0:
        t = -item - 1
        w = inst[t, 1]
        h = inst[t, 0]
    else:
        t = item - 1
        w = inst[t, 0]
        h = inst[t, 1]
    if w > W or h > H:
        w, h = h, w
    rects[k, 0] = t + 1
    first = nb if enc == 1 else 1
    for b in range(first, nb + 1):
        if ibl_try_bin(rects, k, b, w, h, W, H, out):
            rects[k, 1] = b
            rects[k, 2] = out[0]
            rects[k, 3] = out[1]
            rects[k, 4] = out[0] + w
            rects[k, 5] = out[1] + h
            return nb
    nb += 1
    rects[k, 1] = nb
    rects[k, 2] = 0
    rects[k, 3] = 0
    rects[k, 4] = w
    rects[k, 5] = h
    return nb


def model_decode(x, inst, W, H, enc):
    """Interpreted convenience wrapper: full decoding by the model."""
    n = len(x)
    rects = np.zeros((max(n, 1), 6), np.int64)
    out = np.zeros(2, np.int64)
    nb = 1
    inst = np.asarray(inst, np.int64)
    for k in range(n):
        nb = ibl_place(rects, k, nb, int(x[k]), inst, W, H, enc, out)
    return rects[:n], nb


def feasible_intervals(y, inst, W, H, n_bins):
    """
    The same feasibility predicate with interval arithmetic (huge bins).

    Pure Python ints; y and inst are lists/arrays. Returns a code.
    """
    rows = [[int(v) for v in r] for r in y]
    ins = [[int(v) for v in r] for r in inst]
    nt = len(ins)
    cnt = [0] * nt
    bins = set()
    for r in rows:
        iid, b, x0, y0, x1, y1 = r
        if iid < 1 or iid > nt:
            return BAD_ID
        if b < 1:
            return BAD_BIN
        if min(x0, y0, x1, y1) < 0:
            return NEGATIVE
        w, h = x1 - x0, y1 - y0
        if (w, h) not in ((ins[iid - 1][0], ins[iid - 1][1]),
                          (ins[iid - 1][1], ins[iid - 1][0])):
            return BAD_DIMS
        if x1 > W or y1 > H:
            return OUTSIDE
        cnt[iid - 1] += 1
        bins.add(b)
    for i, r in enumerate(rows):
        for j in range(i):
            q = rows[j]
            if q[1] == r[1] and q[2] < r[4] and r[2] < q[4] \
                    and q[3] < r[5] and r[3] < q[5]:
                return OVERLAP
    if bins != set(range(1, len(bins) + 1)):
        return BIN_GAP
    if n_bins != len(bins):
        return BAD_NBINS
    for t in range(nt):
        if cnt[t] != ins[t][2]:
            return BAD_COUNT
    return OK


CODE_NAMES = {OK: "ok", BAD_ID: "invalid item id", BAD_DIMS: "wrong dimensions",
              OUTSIDE: "outside the bin", OVERLAP: "overlap",
              BAD_BIN: "invalid bin id", BIN_GAP: "bin ids not contiguous",
              BAD_COUNT: "wrong multiplicity", BAD_NBINS: "wrong bin count",
              NEGATIVE: "negative (wrapped) coordinate"}


def objective_models(y, n, k, W, H, grid, cnt, area, sky, out):
    """
    The seven documented objective values of a feasible packing, per cell.

    grid: (>=k, W, H) scratch; cnt/area/sky: (>=k) scratch; out: (7,).
    0 bin count; 1 (k-1)*n + items in last bin; 2 (k-1)*n + fewest items in
    a bin; 3 (k-1)*A + covered area of last bin; 4 (k-1)*A + least covered
    area; 5 (k-1)*A + area under the skyline of the last bin; 6 (k-1)*A +
    lowest such area.
    """
    A = W * H
    for b in range(k):
        cnt[b] = 0
        area[b] = 0
        sky[b] = 0
        for xx in range(W):
            for yy in range(H):
                grid[b, xx, yy] = 0
    for i in range(n):
        b = y[i, 1] - 1
        cnt[b] += 1
        for xx in range(y[i, 2], y[i, 4]):
            for yy in range(y[i, 3], y[i, 5]):
                grid[b, xx, yy] = 1
    for b in range(k):
        for xx in range(W):
            top = 0
            for yy in range(H):
                if grid[b, xx, yy] != 0:
                    area[b] += 1
                    top = yy + 1
            sky[b] += top
    mc = cnt[0]
    ma = area[0]
    ms = sky[0]
    for b in range(1, k):
        if cnt[b] < mc:
            mc = cnt[b]
        if area[b] < ma:
            ma = area[b]
        if sky[b] < ms:
            ms = sky[b]
    out[0] = k
    out[1] = (k - 1) * n + cnt[k - 1]
    out[2] = (k - 1) * n + mc
    out[3] = (k - 1) * A + area[k - 1]
    out[4] = (k - 1) * A + ma
    out[5] = (k - 1) * A + sky[k - 1]
    out[6] = (k - 1) * A + ms


def objective_values_exact(rows, n_items, W, H):
    """
    The seven documented objective values with Python ints, any size.

    Skyline areas by a sweep over the x break points of each bin (no grid),
    so this also works for bins of 10^12 units.
    """
    rows = [[int(v) for v in r] for r in rows]
    k = max(r[1] for r in rows)
    A = W * H
    cnt = [0] * k
    area = [0] * k
    sky = [0] * k
    for b in range(1, k + 1):
        its = [r for r in rows if r[1] == b]
        cnt[b - 1] = len(its)
        area[b - 1] = sum((r[4] - r[2]) * (r[5] - r[3]) for r in its)
        xs = sorted({0, W} | {r[2] for r in its} | {r[4] for r in its})
        s = 0
        for x0, x1 in zip(xs, xs[1:]):
            top = max([r[5] for r in its if r[2] <= x0 and x1 <= r[4]]
                      or [0])
            s += (x1 - x0) * top
        sky[b - 1] = s
    return [k, (k - 1) * n_items + cnt[k - 1], (k - 1) * n_items + min(cnt),
            (k - 1) * A + area[k - 1], (k - 1) * A + min(area),
            (k - 1) * A + sky[k - 1], (k - 1) * A + min(sky)]
