"""
Reference model for C09: the QAP objective and the QAPLIB text layout.

Everything here works on plain Python ints and lists (no numpy, nothing
from the package), written from the documentation:

* objective value = sum over all i, j of F[i][j] * D[p[i]][p[j]];
* a QAPLIB file = the size n, then the n*n flows, then the n*n distances,
  as white-space separated numbers, wrapped into lines in any way.
"""
import itertools

#: the boundary value alphabet of the design (storage type edges)
ALPHABET = (0, 1, 2, 11, 127, 128, 255, 256, 30_000_000)

#: the statement's limit for the trivial upper bound
UB_LIMIT = 10 ** 15


def objective(flows, dists, perm) -> int:
    """Compute sum_ij F[i][j] * D[p(i)][p(j)] with Python big ints."""
    n = len(perm)
    total = 0
    for i in range(n):
        fi = flows[i]
        di = dists[perm[i]]
        for j in range(n):
            total += int(fi[j]) * int(di[perm[j]])
    return total


def sorted_product_sum(flows, dists) -> int:
    """
    Largest value any pairing of flows with distances can reach.

    Used only to restrict the alphabet to the statement's domain
    (trivial upper bound below 10^15), never as an oracle.
    """
    f = sorted(int(v) for r in flows for v in r)
    d = sorted(int(v) for r in dists for v in r)
    return sum(a * b for a, b in zip(f, d))


def all_perms(n):
    """All permutations of 0..n-1 in lexicographic order."""
    return list(itertools.permutations(range(n)))


def matrix(vals, n):
    """Row-major list of n*n values -> list of n rows."""
    return [list(vals[i * n:(i + 1) * n]) for i in range(n)]


# ---------------------------------------------------------------- text layout

#: blank-line variants
BLANKS = ("none", "between", "every")
#: spacing variants
SPACINGS = ("single", "multi", "edges")


def masks_simplest_first(ntok: int):
    """
    All compositions of `ntok` tokens into lines.

    A composition is a bit mask with `ntok - 1` bits: bit k set = line break
    between token k and token k + 1. Ordered by number of lines, then value.
    """
    return sorted(range(1 << (ntok - 1)),
                  key=lambda m: (bin(m).count("1"), m))


def straddles(mask: int, n: int) -> bool:
    """True iff one line holds the last flow and the first distance."""
    return not (mask >> (n * n - 1)) & 1


def _join(toks, spacing, k):
    if spacing == "single":
        return " ".join(toks)
    if spacing == "multi":
        out = toks[0]
        for i, t in enumerate(toks[1:]):
            out += " " * (2 + (i + k) % 3) + t
        return out
    return " " * (1 + k % 2) + " ".join(toks) + " " * (1 + (k + 1) % 3)


def render(n: int, tokens, mask: int, blank: str, spacing: str):
    """
    Lay out "n, flows, distances" as a list of lines (without newlines).

    `tokens` are the 2*n*n numbers, flows first; `n` sits on a line of its
    own. blank: "none" | "between" (a blank line wherever a line break
    coincides with the end of the flows, and after n) | "every" (a blank
    line before the first and after every line).
    """
    toks = [str(t) for t in tokens]
    lines = []
    groups = []
    cur = [toks[0]]
    ends_flows = []
    for k in range(len(toks) - 1):
        if (mask >> k) & 1:
            groups.append(cur)
            ends_flows.append(k == n * n - 1)
            cur = []
        cur.append(toks[k + 1])
    groups.append(cur)
    ends_flows.append(False)
    if blank == "every":
        lines.append("")
    lines.append(_join([str(n)], spacing, 0))
    if blank != "none":
        lines.append("" if spacing != "edges" else "  ")
    for k, (g, e) in enumerate(zip(groups, ends_flows)):
        lines.append(_join(g, spacing, k))
        if blank == "every" or (blank == "between" and e):
            lines.append("" if spacing != "edges" else " ")
    return lines


def token_sets(n: int):
    """Token lists (flows first) whose misplacement is always visible."""
    n2 = n * n
    a = list(range(1, 2 * n2 + 1))
    b = [(0, 65536, 7, 128, 255, 10, 300, 1, 99)[k % 9]
         + (1000 * k if k % 3 else 0) for k in range(2 * n2)]
    b[n2 - 1] = 30_000_000  # the last flow is long, the first distance 0/short
    # all flows zero (trivial upper bound 0), distances at storage type edges
    c = [0] * n2 + [(128, 255, 256, 32768, 65536, 127, 1, 0, 70000)[k % 9]
                    for k in range(n2)]
    return [a, b, c]
