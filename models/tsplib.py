"""
Reference definitions for TSPLIB95 files (written from the TSPLIB95 document
and its FAQ, not from the package).

* explicit weight formats as *cell lists* (which matrix cell does the k-th
  number of the EDGE_WEIGHT_SECTION belong to), line wrappings as bit masks;
* a plain reference parser for the subset of TSPLIB used here;
* the distance functions EUC_2D, CEIL_2D, ATT on exact rationals
  (`fractions.Fraction` + `math.isqrt`, no floating point) and GEO on
  70-digit decimals with own sine/cosine series and *no* arc cosine (the
  integer result is bracketed with cos(k / RRR));
* since TSPLIB95 defines the functions on C doubles, a result is only
  *demanded* when it does not depend on floating point rounding: see
  `planar_distance` and `GeoModel.distance` (they return None otherwise).
"""
from decimal import Decimal, localcontext
from fractions import Fraction
from functools import lru_cache
from math import acos, isqrt

FORMATS = ("FULL_MATRIX", "UPPER_ROW", "LOWER_DIAG_ROW", "UPPER_DIAG_ROW")
SYMMETRIC_FORMATS = FORMATS[1:]


# ---------------------------------------------------------------- explicit
def cells(fmt: str, n: int) -> list:
    """The cells (row, column) in the order in which `fmt` lists them."""
    every = [(i, j) for i in range(n) for j in range(n)]
    if fmt == "FULL_MATRIX":      # "weights are given by a full matrix"
        return every
    if fmt == "UPPER_ROW":        # upper triangular, row-wise, no diagonal
        return [c for c in every if c[1] > c[0]]
    if fmt == "LOWER_DIAG_ROW":   # lower triangular, row-wise, with diagonal
        return [c for c in every if c[1] <= c[0]]
    if fmt == "UPPER_DIAG_ROW":   # upper triangular, row-wise, with diagonal
        return [c for c in every if c[1] >= c[0]]
    raise ValueError(fmt)


def encode(fmt: str, m: list, diag: int = 0) -> list:
    """The numbers of the weight section for matrix `m` (diagonal = diag)."""
    return [diag if i == j else m[i][j] for (i, j) in cells(fmt, len(m))]


def decode(fmt: str, n: int, nums: list) -> list:
    """The matrix (zero diagonal) that `nums` denotes in format `fmt`."""
    cl = cells(fmt, n)
    if len(cl) != len(nums):
        raise ValueError(f"{fmt} for n={n} needs {len(cl)} numbers, "
                         f"got {len(nums)}")
    m = [[0] * n for _ in range(n)]
    for (i, j), v in zip(cl, nums):
        if i == j:
            continue
        m[i][j] = v
        if fmt != "FULL_MATRIX":
            m[j][i] = v
    return m


def wrap(tokens: list, mask: int, sep: str = " ") -> list:
    """
    Wrap the tokens into lines: bit g of `mask` set = line break in gap g.

    The masks 0 .. 2^(len-1)-1 are exactly the compositions of the token
    list into consecutive non-empty lines.
    """
    lines = []
    cur = [tokens[0]]
    for g in range(1, len(tokens)):
        if (mask >> (g - 1)) & 1:
            lines.append(sep.join(cur))
            cur = []
        cur.append(tokens[g])
    lines.append(sep.join(cur))
    return lines


def is_symmetric(m: list) -> bool:
    n = len(m)
    return all(m[i][j] == m[j][i] for i in range(n) for j in range(n))


# ---------------------------------------------------------------- parsing
SECTIONS = ("NODE_COORD_SECTION", "EDGE_WEIGHT_SECTION",
            "DISPLAY_DATA_SECTION", "FIXED_EDGES_SECTION", "TOUR_SECTION")


def _is_number(tok: str) -> bool:
    try:
        float(tok)
    except ValueError:
        return False
    return tok.upper() not in ("EOF", "INF", "NAN", "-INF", "+INF")


def parse(lines) -> dict:
    """
    Plain reference parser: header, coordinates / weights as *tokens*.

    Returns dict(name, type, dimension, ewt, ewf, coords=[(x, y) tokens],
    weights=[int], tour=[int]).
    """
    res = {"name": None, "type": None, "dimension": None, "ewt": None,
           "ewf": None, "coords": None, "weights": None, "tour": None,
           "comments": []}
    section = None
    for raw in lines:
        line = raw.strip()
        if not line:
            continue
        if line == "EOF":
            break
        if line in SECTIONS:
            section = line
            if section == "NODE_COORD_SECTION":
                res["coords"] = []
            elif section == "EDGE_WEIGHT_SECTION":
                res["weights"] = []
            elif section == "TOUR_SECTION":
                res["tour"] = []
            continue
        toks = line.split()
        if section is None or not all(_is_number(t) for t in toks):
            if ":" in line:
                key, _, value = line.partition(":")
                key = key.strip()
                value = value.strip()
                if key == "NAME":
                    res["name"] = value
                elif key == "TYPE":
                    res["type"] = value
                elif key == "DIMENSION":
                    res["dimension"] = int(value)
                elif key == "EDGE_WEIGHT_TYPE":
                    res["ewt"] = value
                elif key == "EDGE_WEIGHT_FORMAT":
                    res["ewf"] = value
                elif key == "COMMENT":
                    res["comments"].append(value)
                continue
            raise ValueError(f"cannot interpret line {line!r}")
        if section == "NODE_COORD_SECTION":
            if len(toks) != 3 or int(toks[0]) != len(res["coords"]) + 1:
                raise ValueError(f"bad coordinate line {line!r}")
            res["coords"].append((toks[1], toks[2]))
        elif section == "EDGE_WEIGHT_SECTION":
            res["weights"].extend(int(t) for t in toks)
        elif section == "TOUR_SECTION":
            res["tour"].extend(int(t) for t in toks)
    return res


def parsed_matrix(p: dict):
    """Matrix of a parsed EXPLICIT file."""
    if p["ewt"] != "EXPLICIT":
        raise ValueError("not explicit")
    return decode(p["ewf"], p["dimension"], p["weights"])


def parsed_tour(p: dict) -> list:
    """The 0-based node list of a parsed tour file (ends at -1)."""
    t = p["tour"]
    if -1 in t:
        t = t[:t.index(-1)]
    return [v - 1 for v in t]


# ------------------------------------------------- planar distance functions
def floor_sqrt(q: Fraction) -> int:
    """floor(sqrt(q)) for a rational q >= 0."""
    return isqrt(q.numerator // q.denominator)


def nint_sqrt(q: Fraction) -> int:
    """nint(sqrt(q)), nint(x) = floor(x + 0.5)."""
    t = floor_sqrt(q)                      # t <= sqrt(q) < t + 1
    half = Fraction(2 * t + 1, 2)
    return t + 1 if q >= half * half else t   # sqrt(q) >= t + 1/2 ?


def ceil_sqrt(q: Fraction) -> int:
    """The smallest integer >= sqrt(q)."""
    t = floor_sqrt(q)
    return t if t * t == q else t + 1


def euc_2d(q: Fraction) -> int:
    """TSPLIB95 2.1: dij = nint(sqrt(xd*xd + yd*yd)); q = xd^2 + yd^2."""
    return nint_sqrt(q)


def ceil_2d(q: Fraction) -> int:
    """TSPLIB95 2.5: the Euclidean distance rounded up."""
    return ceil_sqrt(q)


def att(q: Fraction) -> int:
    """
    TSPLIB95 2.6: rij = sqrt((xd*xd + yd*yd) / 10.0); tij = nint(rij);
    if (tij < rij) dij = tij + 1; else dij = tij.
    """
    r2 = q / 10
    t = nint_sqrt(r2)
    return t + 1 if t * t < r2 else t      # t < rij  <=>  t^2 < rij^2


PLANAR = {"EUC_2D": euc_2d, "CEIL_2D": ceil_2d, "ATT": att}


def on_boundary(metric: str, q: Fraction) -> bool:
    """Is sqrt(.) exactly at a point where the rounding rule switches?"""
    r2 = q / 10 if metric == "ATT" else q
    t = floor_sqrt(r2)
    half = Fraction(2 * t + 1, 2)
    if metric == "EUC_2D":
        return r2 == half * half
    if metric == "CEIL_2D":
        return r2 == t * t
    return r2 == half * half or r2 == t * t

#: relative perturbation of xd^2+yd^2 (computed exactly from the doubles the
#: coordinates are read as) under which a demanded result must be stable.
#: The C formula on doubles commits at most 6 roundings of relative size
#: 2^-53 (difference, square, sum, division by 10, square root counted
#: twice), i.e. < 1e-15 in total; the margin is 100 times that.
REL_EPS = Fraction(1, 10 ** 13)


def _exact_float(v: Fraction) -> bool:
    """Is the rational exactly a double (then IEEE arithmetic is exact)?"""
    return abs(v) < 2 ** 53 and Fraction(float(v)) == v


@lru_cache(maxsize=1 << 16)
def tok_dec(tok: str) -> Fraction:
    """The real number a coordinate token denotes (decimal reading)."""
    return Fraction(Decimal(tok))


@lru_cache(maxsize=1 << 16)
def tok_dbl(tok: str) -> Fraction:
    """The double a coordinate token is converted to (as exact rational)."""
    return Fraction(float(tok))


def planar_distance(metric: str, a: tuple, b: tuple):
    """
    The distance of the points a, b (pairs of coordinate *tokens*).

    Returns (d, why): d is the integer that TSPLIB95 prescribes, or None if
    the value depends on how floating point rounds (then nothing is
    demanded): the decimal and the double reading of the coordinates must
    agree, and the result must either be stable under a relative change of
    1e-13 of the squared distance, or the value lies exactly on a rounding
    boundary and every intermediate value of the C formula is exactly
    representable (so doubles compute it without any rounding).
    """
    f = PLANAR[metric]
    ad = (tok_dec(a[0]), tok_dec(a[1]))
    bd = (tok_dec(b[0]), tok_dec(b[1]))
    xd, yd = ad[0] - bd[0], ad[1] - bd[1]
    q = xd * xd + yd * yd
    e = f(q)
    af = (tok_dbl(a[0]), tok_dbl(a[1]))
    bf = (tok_dbl(b[0]), tok_dbl(b[1]))
    xf, yf = af[0] - bf[0], af[1] - bf[1]
    qf = xf * xf + yf * yf
    if qf != q and f(qf) != e:
        return None, "decimal and double reading differ"
    if f(qf * (1 - REL_EPS)) == e == f(qf * (1 + REL_EPS)):
        return e, "stable"
    # at / next to a rounding boundary: demanded only if the C formula on
    # the doubles is free of rounding (every intermediate value is a double)
    chain = [xf, yf, xf * xf, yf * yf, qf]
    if metric == "ATT":
        chain.append(qf / 10)
    if all(_exact_float(v) for v in chain) and on_boundary(metric, qf):
        return e, "exact boundary"   # the square root is exact as well
    return None, "within 1e-13 of a rounding boundary, not exact in doubles"


# ------------------------------------------------------------------- GEO
PREC = 70
_TINY = Decimal(10) ** -(PREC - 2)
PI = Decimal("3.141592")       # TSPLIB95 2.4
RRR = Decimal("6378.388")      # TSPLIB95 2.4
GEO_MARGIN = Decimal(10) ** -12
#: RRR * pi = 20038.29..: for k >= 20039, k / RRR exceeds every arc cosine
GEO_KMAX = 20039


def _sincos(x: Decimal) -> tuple:
    """(sin x, cos x) by their power series (|x| <= 8), context PREC."""
    x2 = x * x
    term = Decimal(1)
    c = Decimal(1)
    k = 0
    while abs(term) > _TINY:
        k += 2
        term = -term * x2 / ((k - 1) * k)
        c += term
    term = x
    s = x
    k = 1
    while abs(term) > _TINY:
        k += 2
        term = -term * x2 / ((k - 1) * k)
        s += term
    return s, c


def geo_radians(tok: str) -> Decimal:
    """
    TSPLIB95 2.4 with the FAQ's correction (deg = (int) x, i.e. truncation):
    deg = int(x); min = x - deg; rad = PI * (deg + 5.0 * min / 3.0) / 180.0.
    """
    x = Decimal(tok)
    whole = int(abs(x).to_integral_value(rounding="ROUND_FLOOR"))
    deg = -whole if x < 0 else whole       # truncation towards zero
    minutes = x - deg
    return PI * (deg + 5 * minutes / 3) / 180


class GeoModel:
    """GEO distances; holds the caches (per point and cos(k / RRR))."""

    def __init__(self) -> None:
        self._pt: dict = {}
        self._ck: dict = {}

    def _point(self, p: tuple) -> tuple:
        r = self._pt.get(p)
        if r is None:
            sla, cla = _sincos(geo_radians(p[0]))    # latitude = x
            slo, clo = _sincos(geo_radians(p[1]))    # longitude = y
            r = self._pt[p] = (sla, cla, slo, clo)
        return r

    def _cosk(self, k: int) -> Decimal:
        r = self._ck.get(k)
        if r is None:
            r = self._ck[k] = _sincos(Decimal(k) / RRR)[1]
        return r

    def distance(self, a: tuple, b: tuple):
        """
        q1 = cos(long_i - long_j); q2 = cos(lat_i - lat_j);
        q3 = cos(lat_i + lat_j);
        dij = (int)(RRR * acos(0.5*((1+q1)*q2 - (1-q1)*q3)) + 1.0).

        Evaluated with the addition theorems on 70-digit sines / cosines of
        the single angles; d = floor(RRR * acos(x)) + 1 is found from
        cos(d / RRR) < x <= cos((d-1) / RRR) (cos decreases on [0, pi]).
        Returns (d, why); d is None when x is within 1e-12 of one of the two
        bracketing cosines (doubles may then round either way).
        """
        with localcontext() as ctx:
            ctx.prec = PREC
            if Decimal(a[0]) == Decimal(b[0]) \
                    and Decimal(a[1]) == Decimal(b[1]):
                return 1, "identical points: acos(1) = 0 exactly"
            sla1, cla1, slo1, clo1 = self._point(a)
            sla2, cla2, slo2, clo2 = self._point(b)
            q1 = clo1 * clo2 + slo1 * slo2
            q2 = cla1 * cla2 + sla1 * sla2
            q3 = cla1 * cla2 - sla1 * sla2
            x = ((1 + q1) * q2 - (1 - q1) * q3) / 2
            xf = min(1.0, max(-1.0, float(x)))
            d = int(6378.388 * acos(xf) + 1.0)      # candidate only
            d = max(1, min(GEO_KMAX, d))
            while d > 1 and not self._cosk(d - 1) >= x:
                d -= 1
            while d < GEO_KMAX and not x > self._cosk(d):
                d += 1
            if not self._cosk(d - 1) >= x:
                return None, "outside the range of acos"
            gap = self._cosk(d - 1) - x
            if d < GEO_KMAX:
                gap = min(gap, x - self._cosk(d))
            if gap > GEO_MARGIN:
                return d, "stable"
            return None, "within 1e-12 of a truncation boundary"


def coordinate_matrix(metric: str, coords: list):
    """
    Expected matrix for a coordinate list: entries None where undecided.

    Returns (matrix, undecided_count).
    """
    n = len(coords)
    m = [[0] * n for _ in range(n)]
    und = 0
    geo = GeoModel() if metric == "GEO" else None
    for i in range(n):
        for j in range(i):
            if geo is not None:
                d, _ = geo.distance(coords[i], coords[j])
            else:
                d, _ = planar_distance(metric, coords[i], coords[j])
            if d is None:
                und += 1
            m[i][j] = m[j][i] = d
    return m, und


# --------------------------------------------------------- published facts
#: optimal tour lengths as published by TSPLIB (list of optimal solutions
#: for symmetric TSPs) for the instances with a shipped tour; cn11 from the
#: package documentation (instance.py module text).
PUBLISHED_OPTIMA = {
    "a280": 2579, "att48": 10628, "bayg29": 1610, "bays29": 2020,
    "berlin52": 7542, "brg180": 1950, "ch130": 6110, "ch150": 6528,
    "cn11": 9547, "eil101": 629, "eil51": 426, "eil76": 538, "fri26": 937,
    "gr120": 6942, "gr202": 40160, "gr24": 1272, "gr48": 5046,
    "gr666": 294358, "gr96": 55209, "kroA100": 21282, "kroC100": 20749,
    "kroD100": 21294, "lin105": 14379, "pcb442": 50778, "pr1002": 259045,
    "pr76": 108159, "rd100": 7910, "st70": 675, "tsp225": 3916,
    "ulysses16": 6859, "ulysses22": 7013}


def n_from_name(name: str) -> int:
    """
    TSPLIB naming: the trailing number is the number of nodes; documented
    exceptions: ftvNN has NN + 1 nodes, kro124p has 100, ry48p has 48.
    """
    if name == "kro124p":
        return 100
    if name == "ry48p":
        return 48
    digits = ""
    for ch in reversed(name):
        if not ch.isdigit():
            break
        digits = ch + digits
    v = int(digits)
    return v + 1 if name.startswith("ftv") else v


def cyclic_length(m, tour: list) -> int:
    """Sum of m[t[k]][t[k+1]] around the cycle, Python integers."""
    total = 0
    for k in range(len(tour)):
        total += int(m[tour[k]][tour[(k + 1) % len(tour)]])
    return total
