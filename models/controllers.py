"""
Reference models for the controller blueprints and the three systems (C16).

Everything here is written from the documentation of the blueprints (module
and function docstrings, generator comments) and from the published
equations, with plain numpy and without importing anything of the package.
All models are vectorised: ``S`` is an (M, d) array of states, ``P`` an
(N, p) array of parameter vectors, results are (N, M[, outputs]) arrays.

Every model also returns a *scale* (sum of the absolute values of the terms
that are added up): compiled code with ``fastmath`` may re-associate sums, so
values are compared at 1e-12 relative to that scale.
"""
import itertools
import math

import numpy as np

REL = 1e-12


def close(got, exp, scale):
    """Elementwise |got-exp| <= 1e-12 * max(1, |exp|, scale); NaN never."""
    got = np.asarray(got, float)
    exp = np.asarray(exp, float)
    lim = REL * np.maximum(1.0, np.maximum(np.abs(exp), scale))
    with np.errstate(invalid="ignore"):
        return np.abs(got - exp) <= lim


# ---------------------------------------------------------------- polynomials
def monomials(d, deg):
    """All exponent tuples of total degree 1..deg, graded lexicographic."""
    res = []
    for total in range(1, deg + 1):
        layer = [e for e in itertools.product(range(total, -1, -1), repeat=d)
                 if sum(e) == total]
        res.extend(layer)
    return res


def monomial_name(e):
    parts = []
    for i, k in enumerate(e):
        if k == 1:
            parts.append(f"s{i}")
        elif k > 1:
            parts.append(f"s{i}^{k}")
    return "*".join(parts)


def monomial_values(exps, S):
    """(len(exps), M) array: value of every monomial at every state."""
    S = np.asarray(S, float)
    out = np.ones((len(exps), S.shape[0]))
    for r, e in enumerate(exps):
        for i, k in enumerate(e):
            for _ in range(k):
                out[r] *= S[:, i]
    return out


def n_monomials(d, deg):
    """Number of monomials of degree 1..deg in d variables (closed form)."""
    return math.comb(d + deg, deg) - 1


# ---------------------------------------------------------- partially linear
def pl_split(P, d, k):
    """Anchors (N,k,d) and laws (N,k,d): per piece first anchor, then law."""
    P = np.asarray(P, float).reshape(len(P), k, 2 * d)
    return P[:, :, :d], P[:, :, d:]


def pl_model(S, P, d, k):
    """
    Law of the anchor closest (Euclidean) to the state.

    Returns (value, scale, winner, unique, laws, tied): laws[n, m, j] is the
    value of law j; unique is False where the smallest distance is attained
    by more than one anchor (tie: any of the tied anchors is "the closest",
    tied[n, m, j] marks them; a strictly farther anchor is not).
    """
    S = np.asarray(S, float)
    anchors, coef = pl_split(P, d, k)
    diff = S[None, :, None, :] - anchors[:, None, :, :]       # N M k d
    dist = (diff * diff).sum(axis=3)                          # N M k
    best = dist.min(axis=2)
    tied = dist == best[:, :, None]
    unique = tied.sum(axis=2) == 1
    winner = dist.argmin(axis=2)
    laws = np.einsum("nkd,md->nmk", coef, S)
    value = np.take_along_axis(laws, winner[:, :, None], 2)[:, :, 0]
    scale = np.einsum("nkd,md->nmk", np.abs(coef), np.abs(S)).max(axis=2)
    return value, scale, winner, unique, laws, tied


# --------------------------------------------------------------------- peaks
def peaks_model(S, P, d, k):
    """Sum of k peaks  w * exp(-(bias + <weights, state>)^2)."""
    S = np.asarray(S, float)
    P = np.asarray(P, float).reshape(len(P), k, d + 2)
    a = P[:, None, :, 1] + np.einsum("nkd,md->nmk", P[:, :, 2:], S)
    terms = P[:, None, :, 0] * np.exp(-(a * a))
    return terms.sum(axis=2), np.abs(terms).sum(axis=2)


# ---------------------------------------------------------------------- ANNs
def ann_param_count(d, outs, layers):
    n = 0
    n_in = d
    for w in layers:
        n += w * (n_in + 1)
        n_in = w
    return n + outs * (n_in + 2)


def ann_model(S, P, d, outs, layers):
    """
    arctan network evaluated layer by layer.

    Weights are consumed front to back: for every hidden layer, neuron by
    neuron, first the bias and then one weight per input of that layer (in
    the order of the inputs); for every output first the multiplier, then
    the bias, then one weight per neuron of the last layer. Output
    = multiplier * arctan(bias + weighted sum).
    """
    S = np.asarray(S, float)
    P = np.asarray(P, float)
    N, M = len(P), len(S)
    h = np.broadcast_to(S[None, :, :], (N, M, d))
    hs = np.abs(h)
    pos = 0
    n_in = d
    for w in layers:
        W = P[:, pos:pos + w * (n_in + 1)].reshape(N, w, n_in + 1)
        pos += w * (n_in + 1)
        pre = W[:, None, :, 0] + np.einsum("nwi,nmi->nmw", W[:, :, 1:], h)
        h = np.arctan(pre)
        n_in = w
    W = P[:, pos:pos + outs * (n_in + 2)].reshape(N, outs, n_in + 2)
    pos += outs * (n_in + 2)
    if pos != P.shape[1]:
        raise ValueError(f"model consumes {pos} weights, got {P.shape[1]}")
    pre = W[:, None, :, 1] + np.einsum("noi,nmi->nmo", W[:, :, 2:], h)
    value = W[:, None, :, 0] * np.arctan(pre)
    # error bound: every layer is 1-Lipschitz in its pre-activation; use the
    # largest absolute weight sum as a generous common scale
    big = 1.0 + np.abs(P).sum(axis=1) * max(1.0, float(hs.max(initial=0.0)))
    scale = np.broadcast_to(big[:, None, None], value.shape)
    return value, scale


# ------------------------------------------------------------------- min-ANN
def min_ann_objective(S, P, d, k, z):
    """
    The network whose minimiser over z the controller returns.

    k = 1: arctan(<w, state> + v*z).
    k > 1: sum_j o_j * arctan(<w_j, state> + v_j*z + b_j); layout per hidden
    neuron j: d state weights, v_j, b_j; then the k output weights o_j.
    z has shape (N, M). Returns (f, scale), both (N, M).
    """
    S = np.asarray(S, float)
    P = np.asarray(P, float)
    if k == 1:
        a = np.einsum("nd,md->nm", P[:, :d], S) + P[:, d, None] * z
        f = np.arctan(a)
        return f, np.full(f.shape, 2.0)
    H = P[:, :k * (d + 2)].reshape(len(P), k, d + 2)
    O = P[:, k * (d + 2):]
    a = np.einsum("nkd,md->nmk", H[:, :, :d], S) \
        + H[:, None, :, d] * z[:, :, None] + H[:, None, :, d + 1]
    f = (np.arctan(a) * O[:, None, :]).sum(axis=2)
    scale = 2.0 * np.abs(O).sum(axis=1)[:, None] + np.zeros(f.shape)
    return f, scale


def min_ann_param_count(d, k):
    return d + 1 if k == 1 else k * (d + 2) + k


# ----------------------------------------------------------------- predefined
def cornejo_maceda_model(S, P):
    """tanh(tanh(tanh(tanh(s0-s1)/p0)/p1)/p2), a zero divisor -> tanh(1)."""
    S = np.asarray(S, float)
    P = np.asarray(P, float)
    z = np.tanh(S[:, 0] - S[:, 1])[None, :] + np.zeros((len(P), 1))
    for i in range(3):
        b = P[:, i, None]
        with np.errstate(divide="ignore", invalid="ignore"):
            q = np.where(b == 0, 1.0, z / np.where(b == 0, 1.0, b))
        z = np.tanh(q)
    return z, np.ones(z.shape)


def table_3_1_ga_model(S, P):
    S = np.asarray(S, float)
    P = np.asarray(P, float)
    t = P[:, None, :2] * S[None, :, :2]
    return t.sum(axis=2), np.abs(t).sum(axis=2)


def table_3_1_lgpc_model(S, P):
    """p2 * sin(p3 / (s0*p0 + p1)), sin(1) where the denominator is 0."""
    S = np.asarray(S, float)
    P = np.asarray(P, float)
    a = S[None, :, 0] * P[:, None, 0] + P[:, None, 1]
    with np.errstate(divide="ignore", invalid="ignore"):
        q = np.where(a == 0, 1.0, P[:, None, 3] / np.where(a == 0, 1.0, a))
    v = P[:, None, 2] * np.sin(q)
    # sin of a large quotient amplifies re-association error of a
    scale = np.abs(P[:, None, 2]) * (1.0 + np.abs(q))
    return v, scale


# -------------------------------------------------------------------- systems
def stuart_landau_rhs(S, C):
    """
    Controlled Landau oscillator (xMLC, sect. 3.3; Li / Sun theses).

    da1/dt = sigma*a1 - a2,  da2/dt = sigma*a2 + a1 + b,
    sigma = 0.1 - a1^2 - a2^2.
    Returns (rhs (N,M,2), scale) for controls C (N,1) and states S (M,2).
    """
    S = np.asarray(S, float)
    b = np.asarray(C, float)[:, None, 0]
    a1 = S[None, :, 0]
    a2 = S[None, :, 1]
    sigma = 0.1 - a1 * a1 - a2 * a2
    asig = 0.1 + a1 * a1 + a2 * a2
    out = np.stack([sigma * a1 - a2 + 0 * b,
                    sigma * a2 + a1 + b], axis=2)
    scale = np.stack([asig * np.abs(a1) + np.abs(a2) + 0 * b,
                      asig * np.abs(a2) + np.abs(a1) + np.abs(b)], axis=2)
    return out, scale


def lorenz_rhs(S, C):
    """
    Controlled Lorenz system, sigma = 10, rho = 28, beta = 8/3.

    dx/dt = sigma*(y - x), dy/dt = x*(rho - z) - y + b, dz/dt = x*y - beta*z.
    """
    S = np.asarray(S, float)
    b = np.asarray(C, float)[:, None, 0]
    x = S[None, :, 0]
    y = S[None, :, 1]
    z = S[None, :, 2]
    sigma, rho, beta = 10.0, 28.0, 8.0 / 3.0
    out = np.stack([sigma * (y - x) + 0 * b,
                    x * (rho - z) - y + b,
                    x * y - beta * z + 0 * b], axis=2)
    ax, ay, az = np.abs(x), np.abs(y), np.abs(z)
    scale = np.stack([sigma * (ax + ay) + 0 * b,
                      ax * (rho + az) + ay + np.abs(b),
                      ax * ay + beta * az + 0 * b], axis=2)
    return out, scale


def three_oscillators_rhs(S, C):
    """
    Three coupled oscillators, eq. (3.1) of Li et al., Arch. Mech. 70 (2018).

    da1 = s1*a1 - a2        da2 = s1*a2 + a1
    da3 = s2*a3 - pi*a4     da4 = s2*a4 + pi*a3 + b
    da5 = s3*a5 - pi^2*a6   da6 = s3*a6 + pi^2*a5 + b
    s1 = -r1^2 + r2^2 - r3^2, s2 = 0.1 - r2^2, s3 = -0.1,
    r1^2 = a1^2+a2^2, r2^2 = a3^2+a4^2, r3^2 = a5^2+a6^2.
    """
    S = np.asarray(S, float)
    b = np.asarray(C, float)[:, None, 0]
    a = [S[None, :, i] for i in range(6)]
    r1 = a[0] ** 2 + a[1] ** 2
    r2 = a[2] ** 2 + a[3] ** 2
    r3 = a[4] ** 2 + a[5] ** 2
    s1 = -r1 + r2 - r3
    s2 = 0.1 - r2
    s3 = -0.1
    pi = math.pi
    pi2 = math.pi ** 2
    out = np.stack([s1 * a[0] - a[1] + 0 * b,
                    s1 * a[1] + a[0] + 0 * b,
                    s2 * a[2] - pi * a[3] + 0 * b,
                    s2 * a[3] + pi * a[2] + b,
                    s3 * a[4] - pi2 * a[5] + 0 * b,
                    s3 * a[5] + pi2 * a[4] + b], axis=2)
    ab = [np.abs(v) for v in a]
    m1 = r1 + r2 + r3
    m2 = 0.1 + r2
    scale = np.stack([m1 * ab[0] + ab[1] + 0 * b,
                      m1 * ab[1] + ab[0] + 0 * b,
                      m2 * ab[2] + pi * ab[3] + 0 * b,
                      m2 * ab[3] + pi * ab[2] + np.abs(b),
                      0.1 * ab[4] + pi2 * ab[5] + 0 * b,
                      0.1 * ab[5] + pi2 * ab[4] + np.abs(b)], axis=2)
    return out, scale


# ------------------------------------------------------------------ alphabets
def grid(values, d):
    """The full grid values^d as an (len^d, d) float array, first axis slow."""
    return np.array(list(itertools.product(values, repeat=d)), float)


def generic(n, mul=37, add=11, div=128.0):
    """n distinct non-zero dyadic numbers in (-2, 2) (or scaled by div)."""
    i = np.arange(n)
    return ((mul * i + add) % 512 - 255.5) * (1.0 / div)


def deviations(defaults, values, maxdev):
    """
    All vectors that differ from a default in at most ``maxdev`` coordinates.

    Changed coordinates take every value of ``values`` different from the
    default's. Ordered: default by default, fewer deviations first.
    """
    res = []
    for D in defaults:
        D = np.asarray(D, float)
        p = len(D)
        res.append(D.copy())
        if maxdev >= 1:
            for i in range(p):
                for v in values:
                    if v != D[i]:
                        x = D.copy()
                        x[i] = v
                        res.append(x)
        if maxdev >= 2:
            for i in range(p):
                for j in range(i + 1, p):
                    for v in values:
                        if v == D[i]:
                            continue
                        for w in values:
                            if w == D[j]:
                                continue
                            x = D.copy()
                            x[i] = v
                            x[j] = w
                            res.append(x)
    return np.array(res)
