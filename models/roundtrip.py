"""
Reference helpers for C19 (text forms round-trip).

Nothing in here imports the code under test: the functions turn arbitrary
result objects into plain nested Python data (so that two objects can be
compared field by field, including the concrete number type), describe the
documented text formats independently, and enumerate small alphabets.
"""
import dataclasses
import itertools
from collections.abc import Mapping

import numpy as np


# ------------------------------------------------------------ plain data
def plain(o):
    """
    Turn ``o`` into nested tuples/dicts of (type name, value) leaves.

    Data classes become ``{"__class__": name, field: plain(value), ...}``,
    mappings become dicts (key order is irrelevant for equality), numbers
    keep their concrete type so that ``7`` and ``7.0`` differ.
    """
    if o is None or isinstance(o, (bool, str)):
        return o
    if isinstance(o, (int, np.integer)):
        return ("int", int(o))
    if isinstance(o, (float, np.floating)):
        return ("float", repr(float(o)))
    if dataclasses.is_dataclass(o) and not isinstance(o, type):
        d = {"__class__": type(o).__name__}
        for f in dataclasses.fields(o):
            d[f.name] = plain(getattr(o, f.name))
        return d
    if isinstance(o, Mapping):
        return {"__map__": {str(k): plain(v) for k, v in o.items()}}
    if isinstance(o, (list, tuple)):
        return [plain(v) for v in o]
    if isinstance(o, np.ndarray):
        return ("ndarray", str(o.dtype), o.tolist())
    return ("repr", type(o).__name__, repr(o))


def differences(a, b, path=""):
    """
    All places where two ``plain`` structures differ.

    Returns a list of (path, kind, left, right); kind in "keys", "value",
    "type", "class", "length".
    """
    out = []
    if isinstance(a, dict) and isinstance(b, dict):
        if "__map__" in a and "__map__" in b:
            ka, kb = set(a["__map__"]), set(b["__map__"])
            if ka != kb:
                out.append((path, "keys", sorted(ka), sorted(kb)))
            for k in sorted(ka & kb):
                out += differences(a["__map__"][k], b["__map__"][k],
                                   f"{path}[{k}]")
            return out
        if a.get("__class__") != b.get("__class__"):
            return [(path, "class", a.get("__class__"), b.get("__class__"))]
        for k in a:
            if k == "__class__":
                continue
            if k not in b:
                out.append((f"{path}.{k}", "keys", "present", "missing"))
            else:
                out += differences(a[k], b[k], f"{path}.{k}" if path else k)
        for k in b:
            if k not in a:
                out.append((f"{path}.{k}", "keys", "missing", "present"))
        return out
    if isinstance(a, list) and isinstance(b, list):
        if len(a) != len(b):
            return [(path, "length", len(a), len(b))]
        for i, (x, y) in enumerate(zip(a, b)):
            out += differences(x, y, f"{path}[{i}]")
        return out
    if a != b:
        kind = "value"
        if isinstance(a, tuple) and isinstance(b, tuple) and a and b \
                and a[0] != b[0]:
            kind = "type"
        elif type(a) is not type(b):
            kind = "type"
        out.append((path, kind, a, b))
    return out


COMPACTABLE = ("goal_f", "max_fes", "max_time_millis")


def compact_uniform(rec):
    """
    Canonical form of the optionally compact fields of end statistics.

    moptipy documents ``goal_f``, ``max_fes`` and ``max_time_millis`` of an
    ``EndStatistics`` record as "a number if all runs share it, else sample
    statistics"; a ``SampleStatistics`` whose minimum equals its maximum
    denotes the same data as the bare number. Returns how many fields were
    found in the expanded form (``rec`` is a ``plain`` structure, changed
    in place).
    """
    es = rec.get("end_statistics") if isinstance(rec, dict) else None
    n = 0
    if isinstance(es, dict):
        for k in COMPACTABLE:
            v = es.get(k)
            if isinstance(v, dict) and v.get("__class__") == \
                    "SampleStatistics" and v["minimum"] == v["maximum"] \
                    and v["n"] == es.get("n"):
                es[k] = v["minimum"]
                n += 1
    return n


def top_field(path):
    """The leading attribute of a difference path (for signatures)."""
    p = path.split("[")[0]
    parts = p.split(".")
    if parts[0] == "end_result" or parts[0] == "end_statistics":
        return ".".join(parts[:2])
    return parts[0]


# ------------------------------------------- documented compact string
def compact_text(name, W, H, rows):
    """
    The documented compact string of a bin packing instance.

    ``name;n_different;W;H`` followed by one ``;w,h`` or ``;w,h,times`` per
    item type; ``times`` appears only if the item occurs more than once.
    """
    parts = [name, str(len(rows)), str(W), str(H)]
    for w, h, r in rows:
        parts.append(f"{w},{h}" if r == 1 else f"{w},{h},{r}")
    return ";".join(parts)


def instance_facts(name, W, H, rows):
    """The attributes an instance must have, straight from the input."""
    return {"name": name, "W": W, "H": H, "n_different": len(rows),
            "n_items": sum(r[2] for r in rows),
            "area": sum(r[0] * r[1] * r[2] for r in rows),
            "rows": [list(map(int, r)) for r in rows]}


def cutsq_squares(w, h):
    """
    How many squares the lower-bound routine cuts a w x h item into.

    (The Euclid-like descent of the documented CUTSQ procedure; only the
    count, so it is cheap for any size.) Used to keep the boundary alphabet
    constructible: the instance constructor materialises every square.
    """
    if h > w:
        w, h = h, w
    cnt = 0
    while h > 1:
        k = w // h
        cnt += k
        w, h = h, w - k * h
    return cnt


def boundary_items(W, H, budget=20000):
    """Boundary item sizes for a W x H bin (constructible ones only)."""
    mx, mn = max(W, H), min(W, H)
    cand = {1, 2, 9, 10, 11, 99, 100, 127, 128, mn - 1, mn, mn + 1, mx - 1,
            mx}
    cand = sorted(v for v in cand if 1 <= v <= mx)
    out = []
    for w in cand:
        for h in cand:
            if w > mn and h > mn:
                continue
            if cutsq_squares(w, h) > budget:
                continue
            out.append((w, h))
    return out


# ----------------------------------------------------------- game plans
def plan_first_line(arr):
    """The documented first line of a game plan's text: flattened, ';'."""
    return ";".join(str(int(v)) for v in np.asarray(arr).reshape(-1))


def plan_tail(arr, teams):
    """The documented human readable part (RobinX table)."""
    lines = [" ".join(teams)]
    for row in np.asarray(arr):
        cells = []
        for d in row:
            d = int(d)
            if d < 0:
                cells.append("@" + teams[-d - 1])
            elif d > 0:
                cells.append(teams[d - 1])
            else:
                cells.append("-")
        lines.append(" ".join(cells))
    return "\n".join(lines)


def pattern_plan(days, n, kind):
    """Boundary-valued plans (values in -n..n, not necessarily feasible)."""
    if kind == "ramp":
        return np.array([[((i * n + j) % (2 * n + 1)) - n for j in range(n)]
                         for i in range(days)], np.int64)
    if kind == "ramp-reversed":
        return np.array([[n - ((i * n + j) % (2 * n + 1)) for j in range(n)]
                         for i in range(days)], np.int64)
    return np.full((days, n), int(kind), np.int64)


# ------------------------------------------------------------ orderings
def permutation_family(n):
    """A boundary family of permutations of 0..n-1 for large n."""
    ident = list(range(n))
    fam = [ident, ident[::-1]]
    for s in (1, 2, n // 2, n - 1):
        fam.append(ident[s:] + ident[:s])
    sw = ident[:]
    sw[0], sw[-1] = sw[-1], sw[0]
    fam.append(sw)
    fam.append([i ^ 1 if (i ^ 1) < n else i for i in ident])
    seen = []
    for p in fam:
        if p not in seen:
            seen.append(p)
    return seen


def all_permutations(n):
    return itertools.permutations(range(n))
