"""
Reference formulas for C12 (bundled experiments).

Nothing of the package under test is imported here. Everything is written
from the documentation of the experiment modules and of the objective
functions they wire together, on plain Python numbers and lists:

* the finite alphabets of the configuration space (seeds, budgets);
* membership tests for the search / solution spaces of the setups
  (permutation, signed permutation with repetitions, box);
* the geometric bin bound, the "generated instance keeps the template's size
  and bin need" test of the instance-generation experiment;
* the documented deviation count of the instance-generation ``errors``
  objective and the way it is blended with the hardness;
* the hardness value from the outcomes of the seeded inner runs;
* the weight-based prioritisation of (errors, plan length) in the
  multi-objective TTP example;
* symmetric synthetic TSP instances with 2..5 cities.

The packing / TTP / QAP / TSP / ODE value models live in their own modules
(``models.packing``, ``models.ttp``, ``models.qap``, ``models.tsp``,
``models.ode``) and are only combined by ``props/c12.py``.
"""
import math

#: the two fixed members of the seed alphabet (the third one is derived from
#: the instance name with moptipy's documented ``rand_seeds_from_str``)
FIXED_SEEDS = (1, 2 ** 63)
#: the FE budgets of the design
BUDGETS = (1, 2, 17)
#: polls of ``should_terminate()`` without a new FE that count as "stuck"
STEP_HORIZON = 100_000


# ----------------------------------------------------------- space members
def is_permutation(x, n):
    """Is x a permutation of 0..n-1?"""
    q = [int(v) for v in x]
    return len(q) == n and sorted(q) == list(range(n))


def is_signed_permutation(x, base):
    """Is x a rearrangement of the multiset `base` with arbitrary signs?"""
    q = [int(v) for v in x]
    if any(v == 0 for v in q):
        return False
    return sorted(abs(v) for v in q) == sorted(int(b) for b in base)


def in_box(x, lo, hi):
    """Every component finite and inside [lo[i], hi[i]]."""
    q = [float(v) for v in x]
    if len(q) != len(lo) or len(q) != len(hi):
        return False
    return all(math.isfinite(v) and float(a) <= v <= float(b)
               for v, a, b in zip(q, lo, hi))


# -------------------------------------------------------------- bin packing
def geometric_bins(rows, W, H):
    """ceil(total item area / bin area); rows = [w, h, multiplicity]."""
    area = sum(int(r[0]) * int(r[1]) * int(r[2]) for r in rows)
    return -((-area) // (int(W) * int(H)))


def template_summary(rows, W, H, lower_bound_bins):
    """
    What the instance generator takes from a template instance.

    Name suffix "n", same bin, same number of items, the same bin need
    (lower bound, at most the number of items), and the observed ranges and
    the total area of the items.
    """
    n = sum(int(r[2]) for r in rows)
    return {"W": int(W), "H": int(H), "n_items": n,
            "n_different": len(rows),
            "min_bins": min(int(lower_bound_bins), n),
            "w_min": min(int(r[0]) for r in rows),
            "w_max": max(int(r[0]) for r in rows),
            "h_min": min(int(r[1]) for r in rows),
            "h_max": max(int(r[1]) for r in rows),
            "area": sum(int(r[0]) * int(r[1]) * int(r[2]) for r in rows)}


def generated_instance_defects(name, W, H, rows, lower_bound_bins, tmpl_name,
                               tmpl):
    """
    Why a generated instance is not a member of the template's family.

    Documented: "we create instances whose bin width, bin height, and the
    number of items is the same as in an existing instance. The lower bound
    for the required number of bins is also the same."
    """
    bad = []
    if name != tmpl_name + "n":
        bad.append(f"name {name!r} is not {tmpl_name + 'n'!r}")
    if int(W) != tmpl["W"] or int(H) != tmpl["H"]:
        bad.append(f"bin {W}x{H} instead of {tmpl['W']}x{tmpl['H']}")
    n = sum(int(r[2]) for r in rows)
    if n != tmpl["n_items"]:
        bad.append(f"{n} items instead of {tmpl['n_items']}")
    for r in rows:
        w, h, m = int(r[0]), int(r[1]), int(r[2])
        if m < 1 or w < 1 or h < 1:
            bad.append(f"degenerate item row {list(map(int, r))}")
        elif not ((w <= W and h <= H) or (h <= W and w <= H)):
            bad.append(f"item {w}x{h} does not fit the bin {W}x{H}")
    if geometric_bins(rows, W, H) > tmpl["min_bins"]:
        bad.append(f"item area needs {geometric_bins(rows, W, H)} bins > "
                   f"{tmpl['min_bins']}")
    if int(lower_bound_bins) != tmpl["min_bins"]:
        bad.append(f"lower bound {lower_bound_bins} instead of "
                   f"{tmpl['min_bins']}")
    return bad


def instgen_deviation_count(rows, tmpl):
    """
    The documented deviation count of a generated instance.

    1. |number of different items - the template's|;
    2. per item (with multiplicity) the amount by which a side lies below
       the template's minimum / above its maximum of that side;
    3. |observed min/max width/height - the template's| (four terms);
    4. |total item area - the template's|.
    """
    e = abs(len(rows) - tmpl["n_different"])
    for r in rows:
        w, h, m = int(r[0]), int(r[1]), int(r[2])
        e += m * (max(0, tmpl["w_min"] - w) + max(0, w - tmpl["w_max"]))
        e += m * (max(0, tmpl["h_min"] - h) + max(0, h - tmpl["h_max"]))
    e += abs(min(int(r[0]) for r in rows) - tmpl["w_min"])
    e += abs(max(int(r[0]) for r in rows) - tmpl["w_max"])
    e += abs(min(int(r[1]) for r in rows) - tmpl["h_min"])
    e += abs(max(int(r[1]) for r in rows) - tmpl["h_max"])
    e += abs(sum(int(r[0]) * int(r[1]) * int(r[2]) for r in rows)
             - tmpl["area"])
    return e


def clamp01(v):
    """Clip into [0, 1]."""
    return max(0.0, min(1.0, v))


def hardness_from_runs(runs, max_fes):
    """
    Hardness from the inner runs (f, lower, upper, last improvement FE).

    Per run the normalised quality (ub - f) / (ub - lb) weighted 1000:1
    against the normalised remaining budget (max_fes - FE) / (max_fes - 1);
    the mean over all runs, clipped into [0, 1].
    """
    total = 0.0
    for (f, lb, ub, fe) in runs:
        q = (ub - f) / (ub - lb)
        t = (max_fes - fe) / (max_fes - 1)
        total += clamp01(((q * 1000.0) + t) / 1001.0)
    return clamp01(total / len(runs))


def errors_and_hardness(hardness, errors):
    """(1000 * hardness + errors) / 1001, clipped into [0, 1]."""
    return clamp01(((hardness * 1000.0) + errors) / 1001.0)


# ---------------------------------------------------------------------- TTP
def bye_penalty(dist):
    """Twice the largest distance plus one."""
    return 2 * max(int(v) for r in dist for v in r) + 1


def plan_length_upper(n, rounds, dist):
    """Every team has a bye on every day."""
    return n * (n - 1) * rounds * bye_penalty(dist)


def prioritize(errors, length, length_upper):
    """Errors first: weights (upper bound of the length + 1, 1)."""
    return int(errors) * (int(length_upper) + 1) + int(length)


def plan_in_space(y, n, rounds):
    """Shape days x n and every entry in -n..n."""
    days = (n - 1) * rounds
    if len(y) != days:
        return False
    return all(len(r) == n and all(-n <= int(v) <= n for v in r) for r in y)


# ---------------------------------------------------------------------- TSP
def syn_tsp(n):
    """A symmetric n-city matrix with small, mostly different distances."""
    m = [[0] * n for _ in range(n)]
    for i in range(n):
        for j in range(i + 1, n):
            m[i][j] = m[j][i] = 1 + ((i + 1) * (j + 1) * 7 + i + j) % 11
    return m


def close(a, b, rel=1e-9):
    """Relative agreement of two floats (both finite)."""
    a, b = float(a), float(b)
    if a == b:
        return True
    if not (math.isfinite(a) and math.isfinite(b)):
        return False
    return abs(a - b) <= rel * max(abs(a), abs(b), 1e-300)
