"""
C20: one-dimensional ordering instances encode neighbour ranks faithfully;
the swap distance is the minimum number of transpositions.

* swap distance: every ordered pair of permutations of length 1..6 (quick) /
  1..7 (thorough) through the real `swap_distance` (public call for all of
  them up to length 6, inside a numba driver for the bulk) against explicit
  breadth-first-search distances in the Cayley graph of position exchanges,
  searched from EVERY source (no cycle formula, no group argument);
  thorough adds length 8 against the search from the identity re-labelled
  (that re-labelling is itself compared with the all-sources search first).
* instances: every object sequence of length 1..5 over {0,1,2,3} x four
  distance functions x powers x horizons through
  `Instance.from_sequence_and_distance` against the counting model.
"""
import itertools

import numpy as np

from mc.core import Ctx, HarnessError, pmap
from models import order1d as M

XDTYPES = ("int8", "uint8", "int16", "uint16", "int32", "uint32", "int64",
           "uint64")
_DRV = {}


# ------------------------------------------------------------------- drivers
def drivers():
    if _DRV:
        return _DRV
    import numba
    from moptipyapps.order1d.distances import swap_distance
    rank = numba.njit(cache=False)(M.perm_rank)
    bfs = numba.njit(cache=False)(M.make_bfs_table(rank))

    @numba.njit(cache=False)
    def all_pairs(table, out):
        """out[s, k] = searched distance table[s] -> table[k]."""
        nn, n = table.shape
        dist = np.empty(nn, np.int64)
        queue = np.empty(nn, np.int64)
        tmp = np.empty(n, np.int64)
        for s in range(nn):
            bfs(table, s, dist, queue, tmp)
            out[s, :] = dist

    @numba.njit(cache=False)
    def drive(table, d_id, lo, hi, explicit, res, hist):
        """
        Real swap_distance on all pairs (table[s], table[k]), s in [lo, hi).

        explicit: expected value = search from table[s]; the re-labelled
        identity search d_id[rank(p1^-1 o p2)] is compared with it (res[7]
        counts agreements, res[8] disagreements). Otherwise the re-labelled
        value is the expectation.
        res: 0 executions, 1 first bad source (-1), 2 searched edges, 3 bad
        target, 4 observed, 5 expected, 6 sources whose search did not reach
        every arrangement, 9 rank self-test failures
        """
        nn, n = table.shape
        dist = np.empty(nn, np.int64)
        queue = np.empty(nn, np.int64)
        tmp = np.empty(n, np.int64)
        inv = np.empty(n, np.int64)
        w = np.empty(n, np.int64)
        res[1] = -1
        for s in range(lo, hi):
            if rank(table[s], n) != s:
                res[9] += 1
            if explicit:
                res[2] += bfs(table, s, dist, queue, tmp)
                if dist.min() < 0:
                    res[6] += 1
            for i in range(n):
                inv[table[s, i]] = i
            for k in range(nn):
                for i in range(n):
                    w[i] = inv[table[k, i]]
                rel = d_id[rank(w, n)]
                if explicit:
                    exp = dist[k]
                    if rel == exp:
                        res[7] += 1
                    else:
                        res[8] += 1
                else:
                    exp = rel
                got = swap_distance(table[s], table[k])
                res[0] += 1
                if 0 <= got < hist.shape[0]:
                    hist[got] += 1
                if got != exp and res[1] < 0:
                    res[1] = s
                    res[3] = k
                    res[4] = got
                    res[5] = exp
    _DRV.update(rank=rank, bfs=bfs, all_pairs=all_pairs, drive=drive,
                swap_distance=swap_distance)
    return _DRV


# ------------------------------------------------------------- swap distance
def public_swap(p1, p2, dtype="int64"):
    from moptipyapps.order1d.distances import swap_distance
    return swap_distance(np.array(p1, dtype), np.array(p2, dtype))


def report_swap(ctx, p1, p2, dtype, got, exp, path):
    again = public_swap(p1, p2, dtype)
    dist, _ = M.bfs_swaps(p1)
    exp2 = dist[tuple(p2)]
    if exp2 != exp:
        raise HarnessError(f"models disagree on {p1}->{p2}: {exp} vs {exp2}")
    sig = "swap_distance|differs from the fewest exchanges found by search"
    if again == exp:
        # The enumeration hands the SAME array objects to many calls (as an
        # all-pairs loop of a user would); a fresh pair of arrays gives the
        # right value, so an earlier call must have changed its arguments.
        sig += "|only when the argument arrays are reused across calls"
    ctx.violation(
        sig,
        f"swap_distance({list(p1)}, {list(p2)}) [{dtype}, {path}] = {got}, "
        f"public call = {again}, fewest position exchanges (BFS) = {exp}",
        dict(kind="swap", p1=list(p1), p2=list(p2), dtype=dtype))


def _public_job(a):
    """Interpreted search from each source; real function via public call."""
    from moptipyapps.order1d.distances import swap_distance
    n, lo, hi, dtypes = a
    perms = list(itertools.permutations(range(n)))
    arrs = {dt: [np.array(p, dt) for p in perms] for dt in dtypes}
    cnt = edges = 0
    hist = [0] * (n + 1)
    asym = 0
    for s in range(lo, hi):
        dist, e = M.bfs_swaps(perms[s])
        edges += e
        if len(dist) != len(perms):
            return ("harness", "search did not reach every arrangement")
        for dt in dtypes:
            ar = arrs[dt]
            a1 = ar[s]
            for k, p in enumerate(perms):
                got = swap_distance(a1, ar[k])
                cnt += 1
                exp = dist[p]
                if got != exp or not isinstance(got, int):
                    return ("bad", perms[s], p, dt, got, exp)
                if swap_distance(ar[k], a1) != got:
                    asym += 1
                if dt == dtypes[0]:
                    hist[got] += 1
    if asym:
        return ("harness", "asymmetric although both directions match BFS")
    return ("ok", cnt, edges, hist)


def explore_public(ctx: Ctx, n, dtypes):
    nn = len(list(itertools.permutations(range(n))))
    nch = max(1, min(ctx.jobs * 2, nn // 4))
    b = [nn * i // nch for i in range(nch + 1)]
    jobs = [(n, b[i], b[i + 1], dtypes) for i in range(nch)]
    out = pmap(_public_job, jobs, ctx.jobs)
    cnt = edges = 0
    hist = [0] * (n + 1)
    for r in out:
        if r[0] == "harness":
            raise HarnessError(r[1])
        if r[0] == "bad":
            report_swap(ctx, r[1], r[2], r[3], r[4], r[5], "public call")
            continue
        cnt += r[1]
        edges += r[2]
        hist = [x + y for x, y in zip(hist, r[3])]
    ctx.add("evaluations", cnt)
    ctx.add("traces_validated_against_impl", cnt)
    ctx.add("states", nn * nn)
    ctx.add("transitions", edges)
    ctx.part(f"swap_public_len{n}", ordered_pairs=nn * nn, executions=cnt,
             dtypes=list(dtypes), searched_edges=edges,
             distance_histogram=hist)
    ctx.log(f"swap public len={n}: pairs={nn * nn} exec={cnt} hist={hist}")
    return hist


def _drive_job(a):
    n, lo, hi, explicit = a
    d = drivers()
    table = M.perm_table(n)
    nn = len(table)
    d_id = np.empty(nn, np.int64)
    d["bfs"](table, 0, d_id, np.empty(nn, np.int64), np.empty(n, np.int64))
    res = np.zeros(12, np.int64)
    hist = np.zeros(n + 1, np.int64)
    d["drive"](table, d_id, lo, hi, explicit, res, hist)
    return res, hist


def explore_driver(ctx: Ctx, n, explicit):
    table = M.perm_table(n)
    nn = len(table)
    nch = max(1, min(ctx.jobs * 4, nn // 2))
    b = [nn * i // nch for i in range(nch + 1)]
    jobs = [(n, b[i], b[i + 1], explicit) for i in range(nch)]
    out = pmap(_drive_job, jobs, ctx.jobs)
    cnt = sum(int(r[0][0]) for r in out)
    edges = sum(int(r[0][2]) for r in out)
    agree = sum(int(r[0][7]) for r in out)
    hist = sum(r[1] for r in out).tolist()
    if any(r[0][6] or r[0][8] or r[0][9] for r in out):
        raise HarnessError(
            f"model self-check failed at length {n}: unreached="
            f"{sum(int(r[0][6]) for r in out)} relabel-disagreements="
            f"{sum(int(r[0][8]) for r in out)} rank-errors="
            f"{sum(int(r[0][9]) for r in out)}")
    ctx.add("evaluations", cnt)
    ctx.add("traces_validated_against_impl", cnt)
    ctx.add("states", nn * nn if explicit else nn)
    ctx.add("transitions", edges)
    ctx.part(f"swap_kernel_len{n}", ordered_pairs=nn * nn, executions=cnt,
             oracle="search from every source" if explicit else
             "search from the identity, re-labelled by p1^-1 o p2",
             searched_edges=edges, relabel_equals_all_sources_search=agree,
             distance_histogram=hist)
    ctx.log(f"swap kernel len={n}: exec={cnt} edges={edges} "
            f"relabel-agree={agree} hist={hist}")
    for r in out:
        if r[0][1] >= 0:
            p1 = table[int(r[0][1])].tolist()
            p2 = table[int(r[0][3])].tolist()
            report_swap(ctx, p1, p2, "int64", int(r[0][4]),
                        int(r[0][5]), "kernel in driver")
            break
    return hist


def models_agree(ctx: Ctx, nmax):
    """Interpreted dict search == compiled table search, all pairs."""
    d = drivers()
    total = 0
    for n in range(1, nmax + 1):
        table = M.perm_table(n)
        nn = len(table)
        out = np.empty((nn, nn), np.int64)
        d["all_pairs"](table, out)
        perms = [tuple(r) for r in table.tolist()]
        for s in range(nn):
            dist, _ = M.bfs_swaps(perms[s])
            for k in range(nn):
                if dist[perms[k]] != out[s, k]:
                    raise HarnessError(
                        f"interpreted and compiled search disagree: "
                        f"{perms[s]} {perms[k]}")
            total += nn
        # interpreted run of the numba-subset code on one source
        d2 = np.empty(nn, np.int64)
        M.make_bfs_table(M.perm_rank)(
            table, nn - 1, d2, np.empty(nn, np.int64), np.empty(n, np.int64))
        if d2.tolist() != out[nn - 1].tolist():
            raise HarnessError("numba-subset model differs when interpreted")
    ctx.part("swap_models", interpreted_vs_compiled_search_agreements=total,
             up_to_length=nmax)
    return total


# ------------------------------------------------------------------ instances
KIND_TEXT = {
    "crash": "construction fails with an internal error",
    "rejected": "a valid input (finite non-negative distances, power in "
                "(0, 100), horizon >= 1) is refused",
    "n": "number of kept objects differs from the merge model",
    "tags": "tags do not list every original object with its representative",
    "distances": "distance between positions i, j is not |i - j|",
    "shape": "flows/distances do not have shape n x n",
    "diag": "flow on the diagonal is not zero",
    "beyond": "flow beyond the horizon is not zero",
    "within": "flow within the horizon is zero",
    "ties": "equally distant neighbours have different flows",
    "nearer": "a nearer neighbour has a smaller flow than a farther one",
    "negative": "flow is negative",
    "horizon": "horizon attribute is not min(n - 1, horizon)",
    "bounds": "QAP bounds missing or lb > ub",
}


def check_instance(values, dname, power, horizon, container="list"):
    """Build the real instance for one input and compare with the model."""
    from moptipyapps.order1d.instance import Instance
    from moptipyapps.qap.instance import Instance as QAPInstance
    dist = M.DISTS[dname]
    objs = [(v, pos) for pos, v in enumerate(values)]
    # the objects are an Iterable: a list, a tuple or a one-shot generator
    data = objs if container == "list" else (
        tuple(objs) if container == "tuple" else (o for o in objs))
    try:
        inst = Instance.from_sequence_and_distance(
            data, lambda a, b: dist(a[0], b[0]), power, horizon,
            ("obj",), lambda o: f"v{o[0]}p{o[1]}")
    except (ValueError, TypeError) as e:
        return "rejected", f"{type(e).__name__}: {e}"[:200]
    except Exception as e:  # noqa
        return "crash", f"{type(e).__name__}: {e}"[:200]
    kept, rep = M.merge(values, dist)
    n = len(kept)
    if inst.n != n:
        return "n", f"n={inst.n}, model keeps positions {kept}"
    exp_tags = sorted(((f"v{v}p{pos}",), rep[pos])
                      for pos, v in enumerate(values))
    try:
        got_tags = sorted((tuple(t), int(k)) for t, k in inst.tags)
    except Exception as e:  # noqa
        got_tags = repr(e)
    if got_tags != exp_tags:
        return "tags", f"tags={inst.tags}, model {exp_tags}"
    dm = np.array(inst.distances)
    fm = np.array(inst.flows)
    if dm.shape != (n, n) or fm.shape != (n, n):
        return "shape", f"{dm.shape} {fm.shape}"
    dl = dm.tolist()
    fl = fm.tolist()
    for i in range(n):
        for j in range(n):
            if dl[i][j] != abs(i - j):
                return "distances", f"distances={dl}"
    d, r2 = M.ranks2(values, kept, dist)
    for i in range(n):
        if fl[i][i] != 0:
            return "diag", f"flows={fl}"
        for j in range(n):
            if i == j:
                continue
            if fl[i][j] < 0:
                return "negative", f"flows={fl}"
            if r2[i][j] > 2 * horizon:
                if fl[i][j] != 0:
                    return "beyond", (f"flows={fl}: flow[{i}][{j}] has rank "
                                      f"{r2[i][j] / 2} > horizon")
            # (a zero flow within the horizon is not excluded by the
            # statement and therefore not demanded to be non-zero)
            for k in range(n):
                if k in (i, j):
                    continue
                if d[i][j] == d[i][k] and fl[i][j] != fl[i][k]:
                    return "ties", (f"flows={fl}: d[{i}][{j}] = d[{i}][{k}]"
                                    f" = {d[i][j]}")
                if d[i][j] < d[i][k] and fl[i][j] < fl[i][k]:
                    return "nearer", (f"flows={fl}: d[{i}][{j}]={d[i][j]} < "
                                      f"d[{i}][{k}]={d[i][k]}")
    # The `horizon` attribute and the inherited QAP bounds are not part of
    # the statement; they are not demanded.
    merged = n < len(values)
    ties = any(r2[i][j] % 2 for i in range(n) for j in range(n) if i != j)
    cut = any(r2[i][j] > 2 * horizon for i in range(n) for j in range(n)
              if i != j)
    return "ok", (n, merged, ties, cut, tuple(map(tuple, fl)))


def _inst_job(a):
    seqs, dnames, powers, horizons = a
    cnt = rejected = merged = ties = cut = 0
    outcomes = set()
    bad = {}
    first_rej = None
    for values in seqs:
        for dn in dnames:
            for pw in powers:
                for hz in horizons:
                    st, det = check_instance(values, dn, pw, hz)
                    cnt += 1
                    if st == "ok" and pw == powers[0] and hz == horizons[0]:
                        # same objects from a tuple / a one-shot generator
                        for cont in ("tuple", "generator"):
                            s2, d2 = check_instance(values, dn, pw, hz, cont)
                            cnt += 1
                            if s2 != "ok" and "container|" + s2 not in bad:
                                bad["container|" + s2] = (
                                    values, dn, pw, hz,
                                    f"objects handed over as a {cont}: "
                                    f"{d2}")
                    if st == "ok":
                        merged += det[1]
                        ties += det[2]
                        cut += det[3]
                        outcomes.add((det[0], det[4]))
                    elif st == "rejected":
                        rejected += 1
                        if first_rej is None:
                            first_rej = (values, dn, pw, hz, det)
                    elif st not in bad:
                        bad[st] = (values, dn, pw, hz, det)
    return cnt, rejected, merged, ties, cut, outcomes, bad, first_rej


def report_inst(ctx, st, values, dn, pw, hz, det):
    if st.startswith("container|"):
        kind = st.split("|")[1]
        cont = "generator" if "generator" in det else "tuple"
        again, _ = check_instance(values, dn, pw, hz, cont)
        if again != kind:
            raise HarnessError(f"instance case not reproducible: {values} "
                               f"{dn} {pw} {hz} {cont}: {kind} then {again}")
        ctx.violation(
            f"order1d|{kind}|objects from a {cont}",
            f"{KIND_TEXT.get(kind, kind)}: objects={list(values)} distance="
            f"{dn} power={pw} horizon={hz}: {det}",
            dict(kind="instance", values=list(values), dist=dn, power=pw,
                 horizon=hz, container=cont))
        return
    again, _ = check_instance(values, dn, pw, hz)
    if again != st:
        raise HarnessError(f"instance case not reproducible: {values} {dn} "
                           f"{pw} {hz}: {st} then {again}")
    ctx.violation(
        f"order1d|{st}",
        f"{KIND_TEXT[st]}: objects={list(values)} distance={dn} power={pw} "
        f"horizon={hz}: {det}",
        dict(kind="instance", values=list(values), dist=dn, power=pw,
             horizon=hz))


def explore_instances(ctx: Ctx, name, alphabet, lengths, dnames, powers,
                      horizons):
    seqs = [s for ln in lengths
            for s in itertools.product(alphabet, repeat=ln)]
    nch = max(1, min(ctx.jobs * 4, len(seqs) // 8))
    # interleave so that every chunk gets short and long sequences
    jobs = [(seqs[i::nch], dnames, powers, horizons) for i in range(nch)]
    out = pmap(_inst_job, jobs, ctx.jobs)
    cnt = sum(r[0] for r in out)
    rejected = sum(r[1] for r in out)
    outcomes = set()
    for r in out:
        outcomes |= r[5]
    ctx.add("evaluations", cnt)
    ctx.add("traces_validated_against_impl", cnt - rejected)
    ctx.add("states", cnt)
    ctx.add("transitions", cnt)
    ctx.part(name, sequences=len(seqs), instances=cnt,
             rejected_by_constructor=rejected,
             with_merged_objects=sum(r[2] for r in out),
             with_fractional_ranks=sum(r[3] for r in out),
             with_ranks_beyond_horizon=sum(r[4] for r in out),
             distinct_flow_matrices=len(outcomes))
    ctx.log(f"{name}: sequences={len(seqs)} instances={cnt} rejected="
            f"{rejected} distinct flow matrices={len(outcomes)}")
    best = {}
    for r in out:
        for st, rec in r[6].items():
            if st not in best or (len(rec[0]), rec[0]) < (len(best[st][0]),
                                                          best[st][0]):
                best[st] = rec
    for st in sorted(best):
        report_inst(ctx, st, *best[st])
    if rejected:
        # every member of the alphabet lies inside the documented parameter
        # domains (finite distances >= 0, power in (0, 100), horizon >= 1),
        # so a refusal leaves the statement without an instance to hold for
        fr = min((r[7] for r in out if r[7] is not None),
                 key=lambda t: (len(t[0]), t[0]))
        report_inst(ctx, "rejected", *fr)
    return outcomes


# ------------------------------------------------------------------------ run
def run(ctx: Ctx) -> None:
    drivers()
    # compile the real function for every dtype before forking
    for dt in XDTYPES:
        public_swap([0, 1], [1, 0], dt)
    agreements = models_agree(ctx, 5)
    ctx.log(f"interpreted and compiled search agree on {agreements} pairs")
    distinct = 0
    # real function through the public call, interpreted search per source
    for n in range(1, 7):
        dts = XDTYPES if n <= 4 else (("int8", "int64") if n == 5
                                      else ("int64",))
        h = explore_public(ctx, n, dts)
        distinct += sum(1 for x in h if x)
        if ctx.too_many():
            return
    # kernel in the compiled driver, compiled search from every source
    for n in range(1, 8):
        h = explore_driver(ctx, n, True)
    if not ctx.quick:
        explore_driver(ctx, 8, False)
        ctx.assume("length 8: expected value = search from the identity "
                   "re-labelled by p1^-1 o p2; that re-labelling equals the "
                   "search from every source on all pairs up to length 7")
    # instances
    powers = (0.5, 1, 2, 3)
    dn = tuple(M.DISTS)
    outcomes = explore_instances(ctx, "instances_len1-5_over_0-3",
                                 (0, 1, 2, 3), (1, 2, 3, 4, 5), dn, powers,
                                 (1, 2, 10))
    # many-way ties: Hamming distance over 3-bit numbers
    outcomes |= explore_instances(ctx, "instances_len1-4_over_0-7_hamming",
                                  tuple(range(8)), (1, 2, 3, 4), ("ham",),
                                  (0.5, 2), (1, 2, 3))
    # many distinct objects: sizes around the 8-bit limits
    longs = [tuple(range(n)) for n in (127, 128, 129, 130, 255, 256, 257)]
    out = pmap(_inst_job, [([v], ("abs",), (1,), (2,)) for v in longs],
               ctx.jobs)
    for r in out:
        for st, rec in r[6].items():
            report_inst(ctx, st, *rec)
        if r[7] is not None:
            report_inst(ctx, "rejected", *r[7])
        outcomes |= r[5]
    ctx.add("evaluations", len(longs))
    ctx.part("instances_with_127_to_257_distinct_objects",
             instances=len(longs))
    if not ctx.quick:
        outcomes |= explore_instances(
            ctx, "instances_len6_over_0-3", (0, 1, 2, 3), (6,), dn, powers,
            (1, 2, 3, 10))
        outcomes |= explore_instances(
            ctx, "instances_len1-5_over_0-4", (0, 1, 2, 3, 4),
            (1, 2, 3, 4, 5), dn, powers, (1, 2, 3, 10))
    ctx.cov["distinct_nontrivial"] = distinct + len(outcomes)
    ctx.cov["rule"] = (
        "swap distance: all ordered pairs of permutations per length, "
        "expected value from an explicit breadth-first search over position "
        "exchanges; instances: all object sequences x distance functions x "
        "powers x horizons. non-trivial = distinct swap-distance values "
        "seen per length + distinct (n, flow matrix) outcomes of the real "
        "constructor")
    ctx.sample(dict(p1=[2, 0, 1, 3], p2=[0, 1, 2, 3],
                    swap_distance=public_swap([2, 0, 1, 3], [0, 1, 2, 3]),
                    bfs=M.bfs_swaps([2, 0, 1, 3])[0][(0, 1, 2, 3)]))
    st, det = check_instance((0, 2, 1, 3, 3), "near0", 2, 2)
    ctx.sample(dict(objects=[0, 2, 1, 3, 3], distance="near0", power=2,
                    horizon=2, status=st,
                    merge_model=M.merge((0, 2, 1, 3, 3), M.dist_near_zero),
                    n_and_flows=det[4] if st == "ok" else det))
    ctx.assume("distance functions are symmetric; objects are the numbers "
               "0..3 (0..4) paired with their position so that every "
               "original object has its own tag")


# --------------------------------------------------------------------- replay
def replay(ctx: Ctx, rep: dict) -> bool:
    if rep["kind"] == "swap":
        got = public_swap(rep["p1"], rep["p2"], rep.get("dtype", "int64"))
        exp = M.bfs_swaps(rep["p1"])[0][tuple(rep["p2"])]
        print(f"swap_distance({rep['p1']}, {rep['p2']}) = {got}, "
              f"fewest exchanges by search = {exp}")
        return got == exp
    st, det = check_instance(tuple(rep["values"]), rep["dist"], rep["power"],
                             rep["horizon"], rep.get("container", "list"))
    print(f"objects={rep['values']} distance={rep['dist']} "
          f"power={rep['power']} horizon={rep['horizon']}: {st} {det}")
    return st == "ok"
