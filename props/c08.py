"""C08: TTP travel length matches the tournament model and penalises byes."""
import itertools

import numpy as np

from mc.core import Ctx, pmap
from models import ttp as M
from props import ttp_common as T

KIND = {1: "value differs from the per-team walk model",
        2: "value outside [0, upper bound]",
        3: "replacing a game by a bye does not strictly increase the value"}


def _cfg(n, byes, full_rows):
    if full_rows:
        return np.array(list(itertools.product(range(-n, n + 1), repeat=n)),
                        np.int64)
    return M.day_config_array(n, byes)


def _job(a):
    (n, rounds, byes, full_rows, start, stop, dist, setting, bye_repl) = a
    d = T.drivers()
    cfg = _cfg(n, byes, full_rows)
    days = (n - 1) * rounds
    dist = np.array(dist, np.int64)
    penalty = 2 * int(dist.max()) + 1
    ub = n * days * penalty
    res = np.zeros(16, np.int64)
    st = np.array([setting] if setting else np.zeros((0, 6)), np.int64)
    d["drive_length"](cfg, days, start, stop, dist, penalty, ub, rounds,
                      st, res, bye_repl)
    return res


def _explore(ctx, name, n, rounds, byes, full_rows, dist, setting=None,
             bye_repl=True, lo=0, hi=None):
    cfg = _cfg(n, byes, full_rows)
    days = (n - 1) * rounds
    total = len(cfg) ** days
    if hi is None:
        hi = total
    span = hi - lo
    nch = min(max(1, span // 64), ctx.jobs * 4)
    b = [lo + span * i // nch for i in range(nch + 1)]
    dl = np.array(dist).tolist()
    jobs = [(n, rounds, byes, full_rows, b[i], b[i + 1], dl, setting,
             bye_repl) for i in range(nch) if b[i] < b[i + 1]]
    out = pmap(_job, jobs, ctx.jobs)
    evals = sum(int(r[0]) for r in out)
    feas = sum(int(r[6]) for r in out)
    byes_checked = sum(int(r[8]) for r in out)
    mins = [int(r[7]) for r in out if r[7] >= 0]
    ctx.add("evaluations", evals)
    ctx.add("traces_validated_against_impl", evals)
    ctx.add("states", span)
    ctx.add("transitions", evals)
    ctx.part(name, plans=span, of_total=total, executions=evals,
             feasible_plans=feas, bye_replacements=byes_checked,
             min_feasible_length=min(mins) if mins else None)
    ctx.log(f"{name}: plans={span}/{total} exec={evals} feasible={feas} "
            f"byes={byes_checked} min={min(mins) if mins else None}")
    for r in out:
        if r[1] >= 0:
            y = T.plan_from_index(int(r[1]), cfg, days)
            cell = int(r[3])
            report(ctx, y, np.array(dist), cell, int(r[2]), int(r[4]),
                   int(r[5]), "kernel")
            break
    return (min(mins) if mins else None), feas


def public_eval(y, dist, rounds=None):
    from moptipyapps.ttp.plan_length import GamePlanLength
    n = y.shape[1]
    if rounds is None:
        rounds = y.shape[0] // (n - 1)
    ll = rounds * n - 1
    inst = T.make_instance(n, rounds, (1, ll, 1, ll, 0, ll), np.array(dist))
    return int(GamePlanLength(inst).evaluate(T.to_game_plan(inst, y)))


def report(ctx, y, dist, cell, kind, got, exp, path):
    n = y.shape[1]
    y2 = y.copy()
    if cell >= 0:
        y2[cell // n, cell % n] = 0
    try:
        again = public_eval(y2, dist)
    except Exception as e:  # noqa
        again = f"{type(e).__name__}: {e}"
    text = (f"{KIND[kind]}: distances={np.array(dist).tolist()} "
            f"plan={y.tolist()} bye at cell={cell} {path} value={got} "
            f"public-API value={again} expected"
            f"{'>' if kind == 3 else '<=' if kind == 2 else '='}{exp}")
    ctx.violation(f"game_plan_length|{KIND[kind]}", text,
                  {"plan": y.tolist(), "dist": np.array(dist).tolist(),
                   "cell": cell, "kind": kind, "observed": got,
                   "expected": exp})


def _public_job(a):
    from moptipyapps.ttp.plan_length import GamePlanLength
    n, rounds, byes, full_rows, start, stop, dist = a
    cfg = _cfg(n, byes, full_rows)
    days = (n - 1) * rounds
    ll = rounds * n - 1
    dist = np.array(dist)
    inst = T.make_instance(n, rounds, (1, ll, 1, ll, 0, ll), dist)
    obj = GamePlanLength(inst)
    # the statement fixes neither the penalty nor the bounds: the penalty is
    # "a fixed penalty" (whatever the objective declares), every value must
    # lie within the DECLARED bounds (the all-home plan has length 0 and the
    # all-bye plan n*days*penalty, both are in the plan space)
    pen = obj.bye_penalty
    ub = obj.upper_bound()
    lb = obj.lower_bound()
    if not isinstance(pen, int) or pen <= 0 or lb > 0 \
            or ub < n * days * pen:
        return ("attrs", pen, lb, ub, 2 * int(dist.max()) + 1,
                n * days * pen if isinstance(pen, int) else -1)
    gp = T.to_game_plan(inst, np.zeros((days, n), int))
    cnt = 0
    vals = set()
    for idx in range(start, stop):
        y = T.plan_from_index(idx, cfg, days)
        gp[:, :] = y
        got = obj.evaluate(gp)
        cnt += 1
        exp = int(M.plan_length(y, inst, pen))
        vals.add(int(got))
        if got != exp or not isinstance(got, int):
            return ("bad", idx, 1, int(got), exp, -1)
        if not lb <= got <= ub:
            return ("bad", idx, 2, int(got), ub, -1)
        for cell in range(days * n):
            if y[cell // n, cell % n] == 0:
                continue
            orig = y[cell // n, cell % n]
            gp[cell // n, cell % n] = 0
            g2 = obj.evaluate(gp)
            gp[cell // n, cell % n] = orig
            cnt += 1
            if g2 <= got:
                return ("bad", idx, 3, int(g2), int(got), cell)
    return ("ok", cnt, len(vals))


def _public(ctx, name, n, rounds, byes, full_rows, dists, lo=0, hi=None):
    cfg = _cfg(n, byes, full_rows)
    days = (n - 1) * rounds
    total = len(cfg) ** days
    if hi is None:
        hi = total
    span = hi - lo
    nch = max(1, min(ctx.jobs, span // 500))
    jobs = []
    for dist in dists:
        b = [lo + span * i // nch for i in range(nch + 1)]
        jobs += [(n, rounds, byes, full_rows, b[i], b[i + 1],
                  np.array(dist).tolist()) for i in range(nch)]
    out = pmap(_public_job, jobs, ctx.jobs)
    cnt = 0
    dv = 0
    for j, r in zip(jobs, out):
        if r[0] == "ok":
            cnt += r[1]
            dv = max(dv, r[2])
        elif r[0] == "bad":
            y = T.plan_from_index(r[1], cfg, days)
            report(ctx, y, np.array(j[6]), r[5], r[2], r[3], r[4],
                   "public GamePlanLength.evaluate")
        else:
            ctx.violation("GamePlanLength|attributes",
                          f"bye_penalty/bounds wrong: {r} for {j[6]}",
                          {"detail": list(r), "dist": j[6]})
    ctx.add("evaluations", cnt)
    ctx.add("traces_validated_against_impl", cnt)
    ctx.add("transitions", cnt)
    ctx.part(name, plans=span, matrices=len(dists), executions=cnt,
             max_distinct_values=dv)
    ctx.log(f"{name}: exec={cnt} distinct_values<= {dv}")
    return dv


def _public_sequence(ctx):
    """
    Several equally named instances in ONE process, one after the other.

    (Workers of the pool each see their own order of matrices; here the order
    is fixed: increasing then decreasing distances, every instance under the
    same name, so that anything remembered from an earlier instance shows.)
    """
    dists = [[[0, 1], [2, 0]], [[0, 5], [5, 0]], [[0, 1], [3, 0]],
             [[0, 700], [700, 0]], [[0, 2], [1, 0]]]
    cnt = 0
    for order in (dists, dists[::-1]):
        for dist in order:
            r = _public_job((2, 2, False, True, 0, 625, dist))
            if r[0] == "ok":
                cnt += r[1]
            elif r[0] == "bad":
                cfg = _cfg(2, False, True)
                y = T.plan_from_index(r[1], cfg, 2)
                report(ctx, y, np.array(dist), r[5], r[2], r[3], r[4],
                       "public GamePlanLength.evaluate, equally named "
                       "instances created one after the other")
            else:
                ctx.violation("GamePlanLength|attributes",
                              f"bye_penalty/bounds wrong: {r} for {dist} "
                              "(equally named instances created one after "
                              "the other)", {"detail": list(r), "dist": dist})
    ctx.add("evaluations", cnt)
    ctx.add("traces_validated_against_impl", cnt)
    ctx.part("public_sequence_of_equally_named_instances", executions=cnt,
             matrices=len(dists))
    ctx.log(f"public sequence of equally named instances: exec={cnt}")


def synthetic4():
    return [
        [[0, 1, 2, 3], [7, 0, 4, 5], [8, 10, 0, 6], [9, 11, 12, 0]],
        [[0, 0, 0, 5], [0, 0, 1, 0], [3, 0, 0, 0], [0, 2, 0, 0]],
        [[0, 1, 1, 1], [1, 0, 1, 1], [1, 1, 0, 1], [1, 1, 1, 0]],
        [[0, 100, 1, 1], [1, 0, 1, 100], [100, 1, 0, 1], [1, 1, 100, 0]],
    ]


def run(ctx: Ctx) -> None:
    from moptipyapps.ttp.instance import Instance
    T.drivers()
    quick = ctx.quick
    distinct = 0
    # n = 2: every plan x every matrix over {0,1,2,5}
    for rounds in (1, 2, 3):
        for a in (0, 1, 2, 5):
            for b in (0, 1, 2, 5):
                if a == 0 and b == 0:
                    continue
                _explore(ctx, f"n2_r{rounds}_all_plans_all_matrices", 2,
                         rounds, False, True, [[0, a], [b, 0]])
    # n = 4, shipped instances: all 12^6 consistent plans, optimum clause
    four = [nm for nm in Instance.list_resources()
            if Instance.from_resource(nm).n_cities == 4]
    ctx.part("shipped_four_team_instances", names=four)
    for nm in four:
        inst = Instance.from_resource(nm)
        st = (inst.home_streak_min, inst.home_streak_max,
              inst.away_streak_min, inst.away_streak_max,
              inst.separation_min, inst.separation_max)
        mn, feas = _explore(ctx, f"n4_r2_{nm}", 4, inst.rounds, False,
                            False, np.array(inst), st, bye_repl=True)
        lo, hi = inst.get_optimal_plan_length_bounds()
        distinct += 1
        if mn is None or lo != mn or hi != mn:
            ctx.violation(
                f"optimum|{nm}",
                f"smallest length over all {feas} feasible plans of {nm} is"
                f" {mn} but the published bounds are ({lo}, {hi})",
                {"instance": nm, "min": mn, "bounds": [lo, hi]})
    # n = 4 synthetic (asymmetric, zeros)
    for k, m in enumerate(synthetic4()):
        if quick and k >= 2:
            break
        _explore(ctx, f"n4_r2_synthetic{k}", 4, 2, False, False, m)
    _explore(ctx, "n4_r1_with_byes", 4, 1, True, False, synthetic4()[0])
    if not quick:
        _explore(ctx, "n4_r2_with_byes", 4, 2, True, False, synthetic4()[0],
                 bye_repl=False)
        _explore(ctx, "n4_r3_consistent", 4, 3, False, False,
                 synthetic4()[0], bye_repl=False, lo=0, hi=12 ** 8)
        ctx.cap("4 teams x 3 rounds: the 12^8 plans whose first day is the "
                "first day row, without bye replacements")
    # six teams, single round robin: completions of fixed first day row(s)
    six = [[0 if i == j else 1 + (3 * i + 5 * j) % 7 for j in range(6)]
           for i in range(6)]
    if quick:
        _explore(ctx, "n6_r1_first_two_days_fixed", 6, 1, False, False, six,
                 bye_repl=True, lo=17 * 120 ** 3, hi=18 * 120 ** 3)
        ctx.cap("6 teams: only 120^3 single round-robin plans (first two "
                "day rows fixed)")
    else:
        _explore(ctx, "n6_r1_first_day_fixed", 6, 1, False, False, six,
                 bye_repl=False, lo=0, hi=120 ** 4)
        _explore(ctx, "n6_r1_first_two_days_fixed", 6, 1, False, False, six,
                 bye_repl=True, lo=17 * 120 ** 3, hi=18 * 120 ** 3)
        ctx.cap("6 teams: only the 120^4 single round-robin plans whose "
                "first day is the first day row")
    # public API
    _public_sequence(ctx)
    distinct += _public(ctx, "public_n2_r2", 2, 2, False, True,
                        [[[0, 1], [2, 0]], [[0, 5], [5, 0]],
                         [[0, 1], [3, 0]]])
    distinct += _public(ctx, "public_n4_r1_byes", 4, 1, True, False,
                        synthetic4()[:2])
    distinct += _public(ctx, "public_n4_r2_slice", 4, 2, False, False,
                        synthetic4()[:1] + [np.array(
                            Instance.from_resource(four[0])).tolist()],
                        0, 12 ** 4 if quick else 12 ** 5)
    ctx.cov["distinct_nontrivial"] = distinct
    ctx.cov["rule"] = ("plans enumerated completely per part; every game "
                       "cell replaced by a bye; non-trivial = distinct "
                       "objective values seen through the public API + one "
                       "per shipped optimum recomputed")
    y = T.plan_from_index(2222222, M.day_config_array(4), 6)
    ctx.sample({"plan": y.tolist(), "dist": synthetic4()[0],
                "length": public_eval(y, synthetic4()[0]),
                "model": int(M.plan_length(y, np.array(synthetic4()[0]),
                                           25))})
    ctx.assume("team counts 2 and 4 (6: a slice); matrices: all over {0,1,2,5} for "
               "n=2, 7 shipped + 4 synthetic for n=4")


def replay(ctx: Ctx, rep: dict) -> bool:
    if "plan" not in rep:
        from moptipyapps.ttp.instance import Instance
        inst = Instance.from_resource(rep["instance"])
        print(inst.get_optimal_plan_length_bounds(), rep)
        return False
    y = np.array(rep["plan"])
    dist = np.array(rep["dist"])
    pen = 2 * int(dist.max()) + 1
    got = public_eval(y, dist)
    exp = int(M.plan_length(y, dist, pen))
    ok = got == exp and 0 <= got <= y.size * pen
    if rep.get("cell", -1) >= 0:
        y2 = y.copy()
        y2[rep["cell"] // y.shape[1], rep["cell"] % y.shape[1]] = 0
        g2 = public_eval(y2, dist)
        ok = ok and g2 > got and g2 == int(M.plan_length(y2, dist, pen))
        print("with bye:", g2)
    print(f"observed={got} model={exp}")
    return ok
