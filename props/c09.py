"""
C09: QAP objective equals the flow-distance sum within the instance bounds;
the QAPLIB reader returns exactly what the text lists under all wrappings.

Bounded exhaustive enumeration through the public API
(`Instance(...)`, `QAPObjective.evaluate/lower_bound/upper_bound`,
`Instance.from_qaplib_stream`) against the big-int model `models/qap.py`.
"""
import io
import itertools

import numpy as np

from mc.core import Ctx, HarnessError, pmap
from models import qap as M

XDTYPES = ("int8", "uint8", "int16", "uint16", "int32", "uint32", "int64",
           "uint64")

# ------------------------------------------------------------------ families
# A family is a dict: name, n, kind, parameters, xdtypes. Its members are
# addressed by an index so that ranges can be handed to worker processes.


def fam_size(f) -> int:
    k = f["kind"]
    nt = 2 * f["n"] * f["n"]
    if k == "prod":
        return len(f["alpha"]) ** nt
    if k == "prod2":
        return (len(f["alpha_f"]) * len(f["alpha_d"])) ** (nt // 2)
    if k == "prod_one":
        return len(f["alpha"]) ** nt * len(f["pos"]) * len(f["others"])
    if k == "list":
        return len(f["items"])
    raise HarnessError(k)


def fam_member(f, idx: int):
    """Return (flows, distances) as flat lists of Python ints."""
    k = f["kind"]
    n2 = f["n"] * f["n"]
    nt = 2 * n2
    if k == "list":
        fl, di = f["items"][idx]
        return list(fl), list(di)
    if k == "prod2":
        vals = [0] * nt
        for t in range(nt - 1, -1, -1):
            a = f["alpha_d"] if t >= n2 else f["alpha_f"]
            idx, d = divmod(idx, len(a))
            vals[t] = a[d]
        return vals[:n2], vals[n2:]
    a = f["alpha"]
    rep = None
    if k == "prod_one":
        idx, o = divmod(idx, len(f["others"]))
        idx, p = divmod(idx, len(f["pos"]))
        rep = (f["pos"][p], f["others"][o])
    vals = [0] * nt
    for t in range(nt - 1, -1, -1):
        idx, d = divmod(idx, len(a))
        vals[t] = a[d]
    if rep is not None:
        vals[rep[0]] = rep[1]
    return vals[:n2], vals[n2:]


def patterns(n):
    """A few asymmetric matrices with (mostly) distinct entries."""
    n2 = n * n
    p0 = list(range(n2))                                   # 0,1,2,...
    p1 = [(k * 7 + 3) % (n2 + 2) for k in range(n2)]        # scrambled
    p2 = [0 if k % (n + 1) == 0 else n2 - k for k in range(n2)]  # zero diag
    p3 = [1 if k == n - 1 else 0 for k in range(n2)]        # a single one
    return [p0, p1, p2, p3]


def scaled_items(n, scales, offs=(0, 1)):
    items = []
    pats = patterns(n)
    for pf, pd in itertools.product(pats, pats):
        for a, c in itertools.product(scales, scales):
            for b, d in itertools.product(offs, offs):
                fl = [a * v + b for v in pf]
                di = [c * v + d for v in pd]
                items.append((fl, di))
    return items


def families(quick: bool):
    A = M.ALPHABET
    fams = [
        dict(name="n1_all_pairs", n=1, kind="prod", alpha=A, xd=XDTYPES),
        dict(name="n2_all_pairs_over_0_1_11_128", n=2, kind="prod",
             alpha=(0, 1, 11, 128), xd=("int8", "int64")),
        dict(name="n2_all_pairs_over_0_1_255_3e7", n=2, kind="prod",
             alpha=(0, 1, 255, 30_000_000), xd=("int8", "uint64")),
        dict(name="n3_all_pairs_over_0_1", n=3, kind="prod", alpha=(0, 1),
             xd=("int8",)),
        dict(name="n2_scaled_patterns", n=2, kind="list",
             items=scaled_items(2, A[1:]), xd=XDTYPES),
        dict(name="n3_scaled_patterns", n=3, kind="list",
             items=scaled_items(3, A[1:]), xd=XDTYPES),
        dict(name="n4_scaled_patterns", n=4, kind="list",
             items=scaled_items(4, (1, 11, 128, 30_000_000), (0,)),
             xd=("int8", "int64")),
    ]
    if quick:
        fams.append(dict(
            name="n2_pairs_over_0_1_2_one_entry_at_boundary", n=2,
            kind="prod_one", alpha=(0, 1, 2), pos=tuple(range(8)),
            others=(11, 127, 128, 255, 256, 30_000_000),
            xd=("int8", "int32")))
    else:
        fams += [
            dict(name="n2_all_pairs_over_0_2_127_256", n=2, kind="prod",
                 alpha=(0, 2, 127, 256), xd=("uint8", "int16")),
            dict(name="n2_pairs_over_0_1_2_11_one_entry_at_boundary", n=2,
                 kind="prod_one", alpha=(0, 1, 2, 11), pos=tuple(range(8)),
                 others=(127, 128, 255, 256, 30_000_000),
                 xd=("int8", "int32")),
            dict(name="n3_pairs_over_0_1_one_entry_at_boundary", n=3,
                 kind="prod_one", alpha=(0, 1), pos=tuple(range(18)),
                 others=(2, 11, 127, 128, 255, 256, 30_000_000),
                 xd=("int8",)),
            dict(name="n3_all_pairs_flows_over_0_3e7_dists_over_0_128", n=3,
                 kind="prod2", alpha_f=(0, 30_000_000), alpha_d=(0, 128),
                 xd=("uint16",)),
        ]
    return fams


# ------------------------------------------------------------ objective check
def check_pair(n, fl, di, xdtypes, in_dtype="int64"):
    """
    Run the real code on one matrix pair, all permutations, given x dtypes.

    Returns (status, detail) with status "ok" | "skip" | failure kind.
    detail for ok: (evaluations, storage dtype, number of distinct values).
    """
    from moptipyapps.qap.instance import Instance
    from moptipyapps.qap.objective import QAPObjective
    F = M.matrix(fl, n)
    D = M.matrix(di, n)
    if M.sorted_product_sum(F, D) >= M.UB_LIMIT:
        return "skip", None
    try:
        inst = Instance(np.array(D, in_dtype), np.array(F, in_dtype))
    except Exception as e:  # noqa
        return "rejects", dict(error=f"{type(e).__name__}: {e}"[:200])
    obj = QAPObjective(inst)
    st = str(inst.flows.dtype)
    if inst.n != n:
        return "size", dict(storage=st, n=inst.n)
    # Not demanded by the objective clause (only the loader clause speaks
    # about the stored matrices): counted, not reported here.
    wrapped = inst.flows.tolist() != F or inst.distances.tolist() != D
    lb = inst.lower_bound
    ub = inst.upper_bound
    if type(lb) is not int or type(ub) is not int or lb > ub or lb < 0 \
            or obj.lower_bound() != lb or obj.upper_bound() != ub:
        return "bounds_attr", dict(
            storage=st, lb=repr(lb), ub=repr(ub),
            olb=repr(obj.lower_bound()), oub=repr(obj.upper_bound()))
    cnt = 0
    vals = set()
    for p in M.all_perms(n):
        exp = M.objective(F, D, p)
        vals.add(exp)
        for xd in xdtypes:
            got = obj.evaluate(np.array(p, xd))
            cnt += 1
            if type(got) is not int:
                return "type", dict(storage=st, perm=list(p), xdtype=xd,
                                    got=repr(got), exp=exp)
            if got != exp:
                return "value", dict(storage=st, perm=list(p), xdtype=xd,
                                     got=got, exp=exp)
            if not lb <= got <= ub:
                return "range", dict(storage=st, perm=list(p), xdtype=xd,
                                     got=got, exp=exp, lb=lb, ub=ub)
    return "ok", (cnt, st, len(vals), wrapped)


KIND_TEXT = {
    "rejects": "Instance(...) rejects non-negative integer matrices",
    "size": "instance size differs from the matrix size",
    "bounds_attr": "instance/objective bounds are not ints with lb <= ub",
    "type": "evaluate does not return an int",
    "value": "objective differs from sum F[i,j]*D[p(i),p(j)]",
    "range": "objective outside [lower_bound, upper_bound]",
}


def in_dtypes(f, idx, fl, di):
    """
    The dtypes in which the two matrices are handed to Instance(...).

    int64, uint64 and the narrowest signed / unsigned type that can hold the
    largest entry (the instance must not compute its bounds in the caller's
    type). Small families try all four, the big product families cycle.
    """
    mx = max(max(fl), max(di))
    sg = next(t for t in ("int8", "int16", "int32", "int64")
              if np.iinfo(t).max >= mx)
    us = next(t for t in ("uint8", "uint16", "uint32", "uint64")
              if np.iinfo(t).max >= mx)
    opts = ["int64", "uint64", sg, us]
    if f["kind"] == "list" or f["n"] == 1:
        return sorted(set(opts))
    return [opts[idx % 4]]


def _obj_job(a):
    f, lo, hi = a
    n = f["n"]
    inst = evals = skipped = nontriv = wrapped = 0
    storages = {}
    bad = None
    for idx in range(lo, hi):
        fl, di = fam_member(f, idx)
        for ind in in_dtypes(f, idx, fl, di):
            status, det = check_pair(n, fl, di, f["xd"], ind)
            if status == "skip":
                skipped += 1
                continue
            inst += 1
            if status == "ok":
                evals += det[0]
                storages[det[1]] = storages.get(det[1], 0) + 1
                if det[2] >= 2:
                    nontriv += 1
                wrapped += det[3]
            elif bad is None:
                bad = (idx, status, det, ind)
    return inst, evals, skipped, nontriv, storages, bad, wrapped


def report_obj(ctx, f, idx, status, det, ind="int64"):
    n = f["n"]
    fl, di = fam_member(f, idx)
    again, det2 = check_pair(n, fl, di, f["xd"], ind)
    if again != status:
        raise HarnessError(f"objective case not reproducible: {status} then "
                           f"{again} for flows={fl} distances={di}")
    sig = f"qap|{status}"
    if det and "storage" in det:
        sig += f"|storage={det['storage']}"
    ctx.violation(
        sig, f"{KIND_TEXT[status]}: n={n} flows={M.matrix(fl, n)} "
             f"distances={M.matrix(di, n)} handed over as {ind}: {det}",
        dict(kind="objective", n=n, flows=fl, distances=di,
             xdtypes=list(f["xd"]), status=status, detail=det,
             in_dtype=ind))


def explore_objective(ctx: Ctx, f) -> tuple[int, set]:
    size = fam_size(f)
    nch = max(1, min(ctx.jobs * 4, size // 200))
    b = [size * i // nch for i in range(nch + 1)]
    jobs = [(f, b[i], b[i + 1]) for i in range(nch) if b[i] < b[i + 1]]
    out = pmap(_obj_job, jobs, ctx.jobs)
    inst = sum(r[0] for r in out)
    evals = sum(r[1] for r in out)
    skipped = sum(r[2] for r in out)
    nontriv = sum(r[3] for r in out)
    storages = {}
    for r in out:
        for k, v in r[4].items():
            storages[k] = storages.get(k, 0) + v
    ctx.add("evaluations", evals)
    ctx.add("traces_validated_against_impl", evals)
    ctx.add("states", inst)
    ctx.add("transitions", evals)
    ctx.part(f["name"], members=size, instances=inst,
             outside_domain_ub_ge_1e15=skipped, evaluations=evals,
             instances_where_permutation_matters=nontriv,
             stored_matrix_differs_objective_still_exact=sum(
                 r[6] for r in out),
             storage_dtypes=storages, x_dtypes=list(f["xd"]))
    ctx.log(f"{f['name']}: members={size} inst={inst} skipped={skipped} "
            f"evals={evals} nontrivial={nontriv} storage={storages}")
    for r in out:
        if r[5] is not None:
            report_obj(ctx, f, *r[5])
            break
    return nontriv, set(storages)


# --------------------------------------------------------------- loader check
def make_stream(lines, form):
    if form == "list":
        return list(lines)
    if form == "gen_nl":
        return (ln + "\n" for ln in lines)
    return io.StringIO("\n".join(lines) + "\n")


def check_text(n, tokens, lines, form):
    """Load one text through the real reader; "" = exactly as listed."""
    from moptipyapps.qap.instance import Instance
    n2 = n * n
    try:
        inst = Instance.from_qaplib_stream(make_stream(lines, form))
    except Exception as e:  # noqa
        return "rejects", f"{type(e).__name__}: {e}"[:160]
    if inst.n != n:
        return "wrong", f"n={inst.n}"
    fl = np.array(inst.flows).tolist()
    di = np.array(inst.distances).tolist()
    if fl != M.matrix(tokens[:n2], n) or di != M.matrix(tokens[n2:], n):
        dt = inst.distances.dtype
        if max(tokens) > np.iinfo(dt).max:
            return "wrapped", f"flows={fl} distances={di} dtype={dt}"
        return "wrong", f"flows={fl} distances={di}"
    return "", ""


def _load_job(a):
    n, ts, blank, spacing, form, masks = a
    tokens = M.token_sets(n)[ts]
    cnt = 0
    strad = 0
    bad = {}
    nbad = 0
    for m in masks:
        lines = M.render(n, tokens, m, blank, spacing)
        status, det = check_text(n, tokens, lines, form)
        cnt += 1
        s = M.straddles(m, n)
        strad += s
        if status:
            nbad += 1
            key = (status, s)
            if key not in bad:
                bad[key] = (m, det)
    return cnt, strad, nbad, bad


def load_sig(status, strad):
    if status == "wrapped":
        return ("from_qaplib_stream|listed value exceeds the storage type "
                "chosen from the upper bound")
    return ("from_qaplib_stream|" + status + "|"
            + ("line-carries-last-flows-and-first-distances" if strad
               else "line-breaks-between-flows-and-distances"))


def report_load(ctx, n, ts, blank, spacing, form, mask, status, det):
    tokens = M.token_sets(n)[ts]
    lines = M.render(n, tokens, mask, blank, spacing)
    again, _ = check_text(n, tokens, lines, form)
    if again != status:
        raise HarnessError(f"loader case not reproducible: {lines}")
    n2 = n * n
    ctx.violation(
        load_sig(status, M.straddles(mask, n)),
        f"text {chr(10).join(lines)!r} ({form}) lists n={n}, flows="
        f"{tokens[:n2]}, distances={tokens[n2:]}; reader "
        f"{'raises' if status == 'rejects' else 'returns'} {det}"
        f"{' (upper bound 0 because one matrix is all zero)' if status == 'wrapped' else ''}",
        dict(kind="loader", n=n, tokens=tokens, lines=lines, form=form,
             status=status))


def explore_loader(ctx: Ctx, n, ts, blank, spacing, form):
    masks = M.masks_simplest_first(2 * n * n)
    nch = max(1, min(ctx.jobs * 2, len(masks) // 2000))
    b = [len(masks) * i // nch for i in range(nch + 1)]
    jobs = [(n, ts, blank, spacing, form, masks[b[i]:b[i + 1]])
            for i in range(nch)]
    out = pmap(_load_job, jobs, ctx.jobs)
    cnt = sum(r[0] for r in out)
    strad = sum(r[1] for r in out)
    nbad = sum(r[2] for r in out)
    ctx.add("evaluations", cnt)
    ctx.add("traces_validated_against_impl", cnt)
    ctx.add("states", cnt)
    ctx.add("transitions", cnt)
    ctx.part(f"loader_n{n}", texts=cnt, straddling_wrappings=strad,
             not_as_listed=nbad)
    seen = set()
    for r in out:
        for key, (m, det) in r[3].items():
            if key not in seen:
                seen.add(key)
                report_load(ctx, n, ts, blank, spacing, form, m, key[0],
                            det)
    return cnt, strad, nbad


# ------------------------------------------------------------------------ run
def warm_up():
    """Compile every (storage dtype, x dtype) kernel before forking."""
    storages = set()
    for s in (1, 11, 128, 256, 30_000_000):
        for t in (1, 2, 128, 256, 30_000_000):
            if s * t * 2 >= M.UB_LIMIT:
                continue
            st, det = check_pair(2, [0, s, 1, 0], [0, 1, t, 0], XDTYPES)
            if st == "ok":
                storages.add(det[1])
    return storages


def run(ctx: Ctx) -> None:
    ws = warm_up()
    ctx.log(f"warm-up done, storage dtypes {sorted(ws)}")
    nontriv = 0
    storages = set()
    for f in families(ctx.quick):
        nt, st = explore_objective(ctx, f)
        nontriv += nt
        storages |= st
        if ctx.too_many():
            break
    need = {"int8", "uint8", "int16", "uint16", "int32", "uint32", "int64"}
    if not ctx.violations and not need <= storages:
        raise HarnessError(f"alphabet no longer reaches every storage type: "
                           f"{sorted(storages)}")
    ctx.part("objective_total", storage_dtypes_seen=sorted(storages))

    # loader: n on its own line, all compositions of the 2n^2 tokens
    total = strad = 0
    combos = [(b, s) for b in M.BLANKS for s in M.SPACINGS]
    for n in (1, 2, 3):
        for ts in (0, 1, 2):
            if n < 3:
                plan = [(b, s, fm) for b, s in combos
                        for fm in ("list", "gen_nl", "stringio")]
            elif ctx.quick:
                if ts == 1:
                    continue
                plan = [("none", "single", "list"),
                        ("between", "multi", "gen_nl"),
                        ("every", "edges", "stringio")][:3 if ts == 0 else 1]
            else:
                plan = [(b, s, ("list", "gen_nl", "stringio")[(i + ts) % 3])
                        for i, (b, s) in enumerate(combos)]
            for b, s, fm in plan:
                c, sd, nb = explore_loader(ctx, n, ts, b, s, fm)
                total += c
                strad += sd
            ctx.log(f"loader n={n} tokens#{ts}: {len(plan)} layouts done, "
                    f"texts so far {total}")
    if ctx.quick:
        ctx.cap("quick tier, n=3 loader: all 131072 wrappings under 3 of the "
                "9 blank-line x spacing layouts for the first token set and "
                "under 1 layout for the all-zero-flows token set")
    ctx.cov["distinct_nontrivial"] = nontriv + strad
    ctx.cov["rule"] = (
        "objective: every member of each matrix-pair family (full products "
        "over sub-alphabets of {0,1,2,11,127,128,255,256,3e7}, one-entry "
        "boundary replacements, scaled asymmetric patterns; pairs with "
        "trivial upper bound >= 10^15 are outside the domain) x all n! "
        "permutations x listed x dtypes; loader: every composition of the "
        "2n^2 tokens into lines (n=1,2,3) x blank-line x spacing layouts. "
        "non-trivial = matrix pairs on which the objective takes >= 2 "
        "different values over the permutations + texts in which one line "
        "carries flows and distances")
    ctx.sample(dict(flows=[[0, 1], [2, 3]], distances=[[0, 5], [7, 0]],
                    perm=[1, 0], model=M.objective(
                        [[0, 1], [2, 3]], [[0, 5], [7, 0]], [1, 0])))
    ctx.sample(dict(lines=M.render(2, M.token_sets(2)[0], 0b0100100,
                                   "between", "multi")))
    ctx.assume("matrix sizes n <= 3 (n = 4 only scaled patterns); entries "
               "from the boundary alphabet; the size n stands on a line of "
               "its own in every text")


# --------------------------------------------------------------------- replay
def replay(ctx: Ctx, rep: dict) -> bool:
    if rep["kind"] == "loader":
        status, det = check_text(rep["n"], rep["tokens"], rep["lines"],
                                 rep["form"])
        print(f"lines={rep['lines']!r}: "
              f"{status + ' ' + det if status else 'loaded as listed'}")
        return not status
    status, det = check_pair(rep["n"], rep["flows"], rep["distances"],
                             rep["xdtypes"], rep.get("in_dtype", "int64"))
    print(f"flows={rep['flows']} distances={rep['distances']}: {status} "
          f"{det}")
    return status in ("ok", "skip")
