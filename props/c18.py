"""C18: TSPLIB and tour files load to the matrices the format prescribes.

Four exhaustively enumerated input spaces, all executed through the real
reader / writer of ``moptipyapps.tsp.instance`` and compared with the
reference definitions of ``models/tsplib.py``:

(a) explicit formats x all line wrappings (compositions of the number list),
(b) writer -> reader round trip of all small matrices over a boundary
    alphabet,
(c) all ordered point pairs of a coordinate grid x EUC_2D/CEIL_2D/ATT/GEO,
(d) all shipped tours and instances.
"""
import itertools
import os
import shutil
import tempfile

import numpy as np

from mc.core import Ctx, HarnessError, pmap, repo_root
from models import tsplib as M

# --------------------------------------------------------------- alphabets
V_FULL = (0, 1, 2, 127, 128, 32767, 32768, 10 ** 12)
V_SMALL = (0, 1, 128, 32768, 10 ** 12)
B_VALUES = (127, 128, 2 ** 31 - 1, 10 ** 12)
NAMES = ("a", "x1", "Ab_9", "EOF", "1", "TSP", "NAME", "gr17", "e3")
COMMENTS = ((), ("hello world",), ("x: y", "EOF"), ("DIMENSION: 7",))

GRID_DESIGN = ("0", "1", "3", "10", "0.5", "7.25", "1e1", "123.456")
GRID_EXTRA = ("2", "4", "1.5", "-3", "-0.5", "1000000")
PLANAR_ANCHOR = ("-1000", "2000.5")
# 55.57/-3.13 and 36.32/-6.18 are 2174.0007 km apart (gr202), which tells
# PI = 3.141592 from the true pi
GEO_LAT_Q = ("0", "0.30", "16.47", "-5.30", "38.24", "89.59", "55.57",
             "36.32")
GEO_LON_Q = ("0", "1.00", "20.42", "-5.30", "-120.30", "179.59", "-3.13",
             "-6.18")
GEO_LAT_T = GEO_LAT_Q + ("1", "45.59", "-33.55", "60", "-0.59", "1e1")
GEO_LON_T = GEO_LON_Q + ("0.30", "96.10", "120", "-179.59", "-0.01", "5.5")
GEO_ANCHOR = ("-45.30", "100.15")
METRICS = ("EUC_2D", "CEIL_2D", "ATT", "GEO")

_TMP = {}


def _tmpdir() -> str:
    d = _TMP.get(os.getpid())
    if d is None:
        base = "/dev/shm" if os.path.isdir("/dev/shm") else None
        d = _TMP[os.getpid()] = tempfile.mkdtemp(prefix="c18_", dir=base)
    return d


def _cleanup() -> None:
    d = _TMP.pop(os.getpid(), None)
    if d:
        shutil.rmtree(d, ignore_errors=True)


def load_lines(lines, via="stream"):
    """Run the real reader on a TSPLIB text."""
    from moptipyapps.tsp.instance import Instance, _from_stream
    if via == "file":
        path = os.path.join(_tmpdir(), "t.tsp")
        with open(path, "w", encoding="utf-8") as f:
            f.write("\n".join(lines) + "\n")
        return Instance.from_file(path, None)
    return _from_stream(iter(lines), None)


def compare(inst, exp) -> list:
    """Differences between a loaded instance and (name, n, sym, matrix)."""
    out = []
    if inst.name != exp["name"]:
        out.append(f"name {inst.name!r} != {exp['name']!r}")
    if inst.n_cities != exp["n"]:
        out.append(f"n_cities {inst.n_cities} != {exp['n']}")
    if bool(inst.is_symmetric) != exp["sym"]:
        out.append(f"is_symmetric {inst.is_symmetric} != {exp['sym']}")
    got = inst.tolist()
    if got != exp["matrix"]:
        out.append(f"matrix {got} != {exp['matrix']}")
    return out


# ================================================================ (a) texts
def test_matrix(kind: str, n: int) -> list:
    m = [[0] * n for _ in range(n)]
    k = 0
    for i in range(n):
        for j in range(n):
            if i == j:
                continue
            if kind == "equal":
                m[i][j] = 7
            elif kind == "distinct_asym":
                m[i][j] = 11 + i * n + j
            elif j > i:
                m[i][j] = m[j][i] = 101 + 3 * k
                k += 1
    if kind == "negative_sym":
        # the constructor accepts negative distances as long as every city
        # has a positive farthest neighbour and the row minima do not sum
        # to a negative bound
        m[0][1] = m[1][0] = -1
    return m


def header(name, typ, n, ewt, fmt, style="plain"):
    c = " : " if style == "spaced" else ": "
    h = [f"NAME{c}{name}", f"TYPE{c}{typ}", f"DIMENSION{c}{n}",
         f"EDGE_WEIGHT_TYPE{c}{ewt}"]
    if fmt:
        h.append(f"EDGE_WEIGHT_FORMAT{c}{fmt}")
    return h


def prepare_text(spec):
    """The mask-independent pieces of the texts of one family."""
    n, fmt, kind, diag, style = spec
    m = test_matrix(kind, n)
    sym = M.is_symmetric(m)
    toks = [str(v) for v in M.encode(fmt, m, diag)]
    head = header("w", "TSP" if sym else "ATSP", n, "EXPLICIT", fmt, style)
    head.append("EDGE_WEIGHT_SECTION")
    tail = [] if style == "no_eof" else ["EOF"]
    return (head, toks, tail, style == "spaced",
            {"name": "w", "n": n, "sym": sym, "matrix": m})


def assemble_text(pre, mask):
    head, toks, tail, spaced, _ = pre
    body = M.wrap(toks, mask, "   " if spaced else " ")
    if spaced:
        body = ["  " + ln + " " for ln in body]
    return head + body + tail


def explicit_text(spec, mask):
    """(lines, expectation) of one explicit text."""
    pre = prepare_text(spec)
    return assemble_text(pre, mask), pre[4]


def case_text(rep):
    """One text through the reader: (status, signature, message)."""
    lines, exp = rep["lines"], rep["expect"]
    what = rep.get("what", "text")
    try:
        inst = load_lines(lines, rep.get("via", "stream"))
    except (ValueError, TypeError) as e:
        if rep.get("tolerate_reject"):
            return "rejected", "", f"rejected loudly: {e}"
        return ("bad", f"reader|{what}|rejects-valid-text",
                f"the reader rejects the valid text {lines}: "
                f"{type(e).__name__}: {e} {e.__cause__ or ''}; expected "
                f"matrix {exp['matrix']}")
    except Exception as e:  # noqa
        return ("bad", f"reader|{what}|crashes",
                f"the reader crashes on {lines}: {type(e).__name__}: {e}")
    diff = compare(inst, exp)
    if diff:
        return ("bad", f"reader|{what}|loads-different-instance",
                f"text {lines} loads as: " + "; ".join(diff))
    return "ok", "", "loads to the expected instance"


def _masks(ntok, sel):
    """Mask list: ("range", lo, hi) or ("few", r) = <= r breaks or joins."""
    if sel[0] == "range":
        return range(sel[1], sel[2])
    gaps = ntok - 1
    full = (1 << gaps) - 1
    out = []
    for r in range(sel[1] + 1):
        for comb in itertools.combinations(range(gaps), r):
            v = 0
            for g in comb:
                v |= 1 << g
            out.append(v)
    low = sorted(set(out))
    high = sorted({full ^ v for v in low} - set(low))
    return low + high


def _job_text(a):
    spec, sel, via = a
    n, fmt, kind, diag, style = spec
    ntok = len(M.cells(fmt, n))
    cnt = rej = 0
    fail = None
    tol = diag != 0
    pre = prepare_text(spec)
    exp = pre[4]
    for mask in _masks(ntok, sel):
        rep = {"kind": "text", "lines": assemble_text(pre, mask),
               "expect": exp, "via": via, "tolerate_reject": tol,
               "what": fmt}
        st, sig, msg = case_text(rep)
        cnt += 1
        if st == "rejected":
            rej += 1
        elif st == "bad" and fail is None:
            fail = (sig, msg, rep)
            break
    _cleanup()
    return cnt, rej, fail


def explicit_jobs(ctx):
    """The list of (part name, spec, selection, via) of sub-space (a)."""
    nmax = 4 if ctx.quick else 5
    jobs = []
    for n in range(2, nmax + 1):
        for fmt in M.FORMATS:
            ntok = len(M.cells(fmt, n))
            total = 1 << (ntok - 1)
            kinds = ["distinct_sym", "equal"]
            if n >= 3:
                kinds.append("negative_sym")
            if fmt == "FULL_MATRIX":
                kinds.insert(0, "distinct_asym")
            for kind in kinds:
                diags = [0]
                if fmt != "UPPER_ROW":
                    diags.append(7 if kind == "equal" else 9999)
                for diag in diags:
                    styles = ["plain"]
                    if n <= 3 and diag == 0:
                        styles += ["spaced", "no_eof"]
                    for style in styles:
                        spec = (n, fmt, kind, diag, style)
                        nm = f"a_{fmt}_n{n}"
                        if total > (1 << 16):
                            if kind == "distinct_asym" and diag == 0:
                                nch = ctx.jobs * 8
                                b = [total * i // nch for i in range(nch + 1)]
                                for i in range(nch):
                                    jobs.append((nm, spec, ("range", b[i],
                                                            b[i + 1]),
                                                 "stream", total))
                            else:
                                jobs.append((nm, spec, ("few", 4), "stream",
                                             total))
                        else:
                            nch = max(1, min(ctx.jobs, total // 2048))
                            b = [total * i // nch for i in range(nch + 1)]
                            for i in range(nch):
                                jobs.append((nm, spec, ("range", b[i],
                                                        b[i + 1]),
                                             "stream", total))
                        if n <= 3 and style == "plain":
                            jobs.append((nm + "_from_file", spec,
                                         ("range", 0, total), "file", total))
    return jobs


# ============================================================ (b) round trip
def case_roundtrip(rep):
    """Matrix -> Instance -> to_stream -> reader: (status, sig, message)."""
    from moptipyapps.tsp.instance import Instance
    name, m = rep["name"], rep["matrix"]
    comments = tuple(rep.get("comments", ()))
    sym = M.is_symmetric(m)
    cls = "symmetric" if sym else "asymmetric"
    try:
        orig = Instance(name, 0, np.array(m, dtype=np.int64))
    except ValueError as e:
        return "rejected", "", f"constructor rejects loudly: {e}"
    lines = []
    try:
        orig.to_stream(lines.append, comments)
    except Exception as e:  # noqa
        return ("bad", f"to_stream|{cls}|raises",
                f"Instance({name!r}, {m}).to_stream raises "
                f"{type(e).__name__}: {e}")
    # the text itself must be TSPLIB for this matrix (reference parser)
    try:
        p = M.parse(lines)
        pm = M.parsed_matrix(p)
        okp = (p["name"] == name and p["dimension"] == len(m) and pm == m
               and (p["type"] == "ATSP" or (p["type"] == "TSP" and sym))
               and p["comments"] == [c.strip() for c in comments])
        why = f"parsed name={p['name']!r} type={p['type']} " \
              f"n={p['dimension']} format={p['ewf']} matrix={pm}"
    except Exception as e:  # noqa
        okp = False
        why = f"{type(e).__name__}: {e}"
    if not okp:
        return ("bad", f"to_stream|{cls}|text-is-not-the-matrix-in-tsplib",
                f"Instance({name!r}, {m}).to_stream wrote {lines}, which a "
                f"plain TSPLIB95 parser does not read as that instance: "
                f"{why}")
    try:
        back = load_lines(lines, rep.get("via", "stream"))
    except Exception as e:  # noqa
        return ("bad", f"roundtrip|{cls}|reader-rejects-writer-output",
                f"Instance({name!r}, {m}).to_stream wrote {lines}; reading "
                f"it back raises {type(e).__name__}: {e} "
                f"{e.__cause__ or ''}")
    exp = {"name": orig.name, "n": len(m), "sym": bool(orig.is_symmetric),
           "matrix": m}
    diff = compare(back, exp)
    if orig.name != name or orig.n_cities != len(m):
        diff.append(f"original has name {orig.name!r}, n {orig.n_cities}")
    if diff:
        return ("bad", f"roundtrip|{cls}|reloaded-instance-differs",
                f"Instance({name!r}, {m}) written as {lines} reloads as: "
                + "; ".join(diff))
    return "ok", "", f"round trip ok ({cls})"


def matrix_from_index(n, alphabet, symmetric_only, idx):
    k = len(alphabet)
    m = [[0] * n for _ in range(n)]
    for i in range(n):
        for j in range(n):
            if i == j or (symmetric_only and j < i):
                continue
            v = alphabet[idx % k]
            idx //= k
            m[i][j] = v
            if symmetric_only:
                m[j][i] = v
    return m


def _job_roundtrip(a):
    n, alphabet, symmetric_only, lo, hi, via, names, comments = a
    cnt = rej = nsym = odd = 0
    fail = None
    for idx in range(lo, hi):
        m = matrix_from_index(n, alphabet, symmetric_only, idx)
        rowpos = all(max(r) > 0 for r in m)
        for name in names:
            for com in comments:
                rep = {"kind": "roundtrip", "name": name, "matrix": m,
                       "comments": list(com), "via": via}
                st, sig, msg = case_roundtrip(rep)
                cnt += 1
                if st == "rejected":
                    rej += 1
                    if rowpos:
                        odd += 1
                elif st == "ok":
                    if M.is_symmetric(m):
                        nsym += 1
                elif fail is None:
                    fail = (sig, msg, rep)
        if fail is not None:
            break
    _cleanup()
    return cnt, rej, nsym, odd, fail


def roundtrip_jobs(ctx):
    specs = [
        ("b_n2_all", 2, V_FULL, False, "stream", ("rt",), ((),)),
        ("b_n2_all_from_file", 2, V_FULL, False, "file", ("rt",), ((),)),
        ("b_n2_names_x_comments", 2, V_SMALL, False, "stream", NAMES,
         COMMENTS),
        ("b_n3_all", 3, V_FULL, False, "stream", ("rt",), ((),)),
        ("b_n3_symmetric_from_file", 3, V_FULL, True, "file", ("rt",),
         ((),)),
        ("b_n4_symmetric_small_alphabet", 4, V_SMALL, True, "stream",
         ("rt",), ((),)),
    ]
    # matrices with negative entries (accepted when the bounds stay >= 0)
    specs.append(("b_n3_with_negative_entries", 3, (-1, 0, 2, 5), False,
                  "stream", ("rt",), ((),)))
    specs.append(("b_n4_symmetric_with_negative_entries", 4, (-1, 0, 3),
                  True, "stream", ("rt",), ((),)))
    # nearly symmetric matrices: entries that differ by one unit at large
    # magnitudes (a symmetry test with a tolerance would merge them)
    for bv in (100_000, 2 ** 31, 10 ** 12 - 1):
        specs.append((f"b_n2_near_equal_{bv}", 2, (bv - 1, bv, bv + 1),
                      False, "stream", ("rt",), ((),)))
        specs.append((f"b_n3_near_equal_{bv}", 3, (bv - 1, bv, bv + 1),
                      False, "stream", ("rt",), ((),)))
    if not ctx.quick:
        specs.append(("b_n4_symmetric", 4, V_FULL, True, "stream", ("rt",),
                      ((),)))
        for bv in B_VALUES:
            specs.append((f"b_n4_all_over_0_1_{bv}", 4, (0, 1, bv), False,
                          "stream", ("rt",), ((),)))
    jobs = []
    for nm, n, alpha, symo, via, names, comments in specs:
        ncell = n * (n - 1) // 2 if symo else n * (n - 1)
        total = len(alpha) ** ncell
        nch = max(1, min(ctx.jobs * 4, total // 1024))
        b = [total * i // nch for i in range(nch + 1)]
        for i in range(nch):
            jobs.append((nm, (n, alpha, symo, b[i], b[i + 1], via, names,
                              comments), total))
    return jobs


# ============================================================ (c) coordinates
def model_distance(metric, geo, a, b):
    if metric == "GEO":
        return geo.distance(tuple(a), tuple(b))
    return M.planar_distance(metric, tuple(a), tuple(b))


def coord_text(metric, pts, with_nct=False):
    lines = header("c", "TSP", len(pts), metric, None)
    if with_nct:
        lines.append("NODE_COORD_TYPE: TWOD_COORDS")
    lines.append("NODE_COORD_SECTION")
    for k, p in enumerate(pts):
        lines.append(f"{k + 1} {p[0]} {p[1]}")
    lines.append("EOF")
    return lines


def case_coords(rep, geo=None):
    """A coordinate text: every decided entry must be the TSPLIB95 value."""
    metric, pts = rep["metric"], rep["points"]
    if geo is None and metric == "GEO":
        geo = M.GeoModel()
    lines = coord_text(metric, pts, rep.get("nct", False))
    n = len(pts)
    expect = {}
    und = 0
    for i in range(n):
        for j in range(i):
            d, _ = model_distance(metric, geo, pts[i], pts[j])
            if d is None:
                und += 1
            else:
                expect[(i, j)] = d
    try:
        inst = load_lines(lines)
    except (ValueError, TypeError) as e:
        if und:   # e.g. acos of 1 + 1ulp: loud, and nothing was demanded
            return "rejected", "", f"rejected loudly: {e}", expect, und
        return ("bad", f"coords|{metric}|rejects-valid-text",
                f"the reader rejects {lines}: {type(e).__name__}: {e}",
                expect, und)
    except Exception as e:  # noqa
        return ("bad", f"coords|{metric}|crashes",
                f"the reader crashes on {lines}: {type(e).__name__}: {e}",
                expect, und)
    bad = []
    if inst.n_cities != n or inst.name != "c":
        bad.append(f"name/n = {inst.name!r}/{inst.n_cities}")
    else:
        for (i, j), d in expect.items():
            for (r, c) in ((i, j), (j, i)):
                if int(inst[r, c]) != d:
                    bad.append(
                        f"d[{r},{c}] between {tuple(pts[r])} and "
                        f"{tuple(pts[c])} is {int(inst[r, c])}, TSPLIB95 "
                        f"{metric} gives {d}")
        for i in range(n):
            if int(inst[i, i]) != 0:
                bad.append(f"d[{i},{i}] = {int(inst[i, i])} != 0")
    if bad:
        return ("bad", f"coords|{metric}|distance-differs",
                f"{metric} text {lines}: " + "; ".join(bad[:4]), expect, und)
    return "ok", "", "all decided distances as defined", expect, und


def grids(ctx, metric):
    if metric == "GEO":
        la, lo = (GEO_LAT_Q, GEO_LON_Q) if ctx.quick \
            else (GEO_LAT_T, GEO_LON_T)
        return [(x, y) for x in la for y in lo], GEO_ANCHOR
    g = GRID_DESIGN if ctx.quick else GRID_DESIGN + GRID_EXTRA
    return [(x, y) for x in g for y in g], PLANAR_ANCHOR


def _job_coords(a):
    metric, pts, anchor, lo, hi = a
    geo = M.GeoModel() if metric == "GEO" else None
    npt = len(pts)
    loads = dec = und = 0
    outcomes = set()
    fail = None
    for idx in range(lo, hi):
        pa, pb = pts[idx // npt], pts[idx % npt]
        rep = {"kind": "coords", "metric": metric,
               "points": [list(pa), list(pb), list(anchor)],
               "nct": bool((idx // npt + idx % npt) & 1)}
        st, sig, msg, expect, u = case_coords(rep, geo)
        loads += 1
        und += u
        dec += len(expect)
        if (1, 0) in expect:
            outcomes.add(expect[(1, 0)])
        if st == "bad":
            fail = (sig, msg, rep)
            break
    return loads, dec, und, outcomes, fail


def coords_jobs(ctx):
    jobs = []
    for metric in METRICS:
        pts, anchor = grids(ctx, metric)
        total = len(pts) ** 2
        nch = max(1, min(ctx.jobs * 2, total // 256))
        b = [total * i // nch for i in range(nch + 1)]
        for i in range(nch):
            jobs.append((f"c_{metric}_ordered_pairs",
                         (metric, pts, anchor, b[i], b[i + 1]), total))
    return jobs


def _job_allpoints(a):
    metric, pts, rev = a
    use = list(reversed(pts)) if rev else list(pts)
    rep = {"kind": "coords", "metric": metric,
           "points": [list(p) for p in use], "nct": rev}
    st, sig, msg, expect, und = case_coords(rep)
    return st, sig, msg, rep, len(expect), und


# ============================================================ (d) shipped
def _tsplib_dir():
    return os.path.join(repo_root(), "moptipyapps", "tsp", "tsplib")


def _raw(fname):
    with open(os.path.join(_tsplib_dir(), fname), encoding="utf-8") as f:
        return f.read().split("\n")


def case_tour(rep):
    from moptipyapps.tsp.instance import Instance
    from moptipyapps.tsp.known_optima import opt_tour_from_resource
    name = rep["name"]
    try:
        inst = Instance.from_resource(name)
        tour = [int(v) for v in opt_tour_from_resource(name)]
    except Exception as e:  # noqa
        return ("bad", f"tour|{name}", f"shipped tour / instance {name} "
                f"does not load: {type(e).__name__}: {e}")
    n = inst.n_cities
    bad = []
    if sorted(tour) != list(range(n)):
        bad.append(f"not a permutation of 0..{n - 1} (length {len(tour)})")
    else:
        length = M.cyclic_length(inst, tour)
        pub = M.PUBLISHED_OPTIMA.get(name)
        doc = int(inst.tour_length_lower_bound)
        if length != pub:
            bad.append(f"tour length {length} != published optimum {pub}")
        if length != doc:
            bad.append(f"tour length {length} != optimum {doc} documented "
                       f"by the package for the instance")
    ref = M.parsed_tour(M.parse(_raw(f"{name}.opt.tour")))
    if ref != tour:
        bad.append("tour differs from the node list in the file (plain "
                   f"parser): {tour[:8]}.. vs {ref[:8]}..")
    if bad:
        return ("bad", f"tour|{name}",
                f"shipped tour {name}: " + "; ".join(bad))
    return "ok", "", f"{name}: permutation of {n}, length {length}"


def case_instance(rep):
    """A shipped instance: documented n; optionally the whole matrix."""
    from moptipyapps.tsp.instance import Instance
    name = rep["name"]
    try:
        inst = Instance.from_resource(name)
    except Exception as e:  # noqa
        return ("bad", f"instance|{name}", f"shipped instance {name} does "
                f"not load: {type(e).__name__}: {e}", "load", 0, 0)
    fname = name + (".atsp" if os.path.exists(
        os.path.join(_tsplib_dir(), name + ".atsp")) else ".tsp")
    p = M.parse(_raw(fname))
    bad = []
    if not (inst.n_cities == p["dimension"] == M.n_from_name(name)):
        bad.append(f"n_cities {inst.n_cities}, DIMENSION {p['dimension']}, "
                   f"name says {M.n_from_name(name)}")
    if inst.name != name:
        bad.append(f"name {inst.name!r}")
    checked = und = 0
    lo, hi = rep.get("rows", (0, inst.n_cities))
    if rep.get("recheck") and not bad:
        n = inst.n_cities
        if p["ewt"] == "EXPLICIT":
            exp = M.parsed_matrix(p)
            for i in range(lo, hi):
                row = inst[i].tolist()
                if row != exp[i]:
                    j = [k for k in range(n) if row[k] != exp[i][k]][0]
                    bad.append(f"d[{i},{j}] = {row[j]} but the "
                               f"{p['ewf']} section says {exp[i][j]}")
                    break
                checked += n
        else:
            geo = M.GeoModel() if p["ewt"] == "GEO" else None
            co = p["coords"]
            for i in range(lo, hi):
                row = inst[i].tolist()
                for j in range(i):
                    d, _ = model_distance(p["ewt"], geo, co[i], co[j])
                    if d is None:
                        und += 1
                        continue
                    checked += 1
                    if row[j] != d or int(inst[j, i]) != d:
                        bad.append(
                            f"d[{i},{j}] = {row[j]} / d[{j},{i}] = "
                            f"{int(inst[j, i])} between {co[i]} and {co[j]},"
                            f" TSPLIB95 {p['ewt']} gives {d}")
                        break
                if bad:
                    break
    kind = p["ewt"] if p["ewt"] != "EXPLICIT" else p["ewf"]
    if bad:
        return ("bad", f"instance|{name}",
                f"shipped instance {name} ({kind}): " + "; ".join(bad),
                kind, checked, und)
    return "ok", "", f"{name}: n={inst.n_cities}", kind, checked, und


def _job_shipped(a):
    kind, rep = a
    if kind == "tour":
        st, sig, msg = case_tour(rep)
        return st, sig, msg, rep, "tour", 0, 0
    st, sig, msg, k, checked, und = case_instance(rep)
    return st, sig, msg, rep, k, checked, und


def shipped_jobs(ctx):
    from moptipyapps.tsp.instance import Instance
    from moptipyapps.tsp.known_optima import list_resource_tours
    jobs = [("tour", {"kind": "tour", "name": nm})
            for nm in list_resource_tours()]
    limit = 450 if ctx.quick else 10 ** 9
    skipped = []
    for nm in Instance.list_resources():
        n = M.n_from_name(nm)
        rc = n <= limit
        if not rc:
            skipped.append(nm)
        if rc and n > 1000:
            # row bands with about equal numbers of pairs
            cuts = [0] + [int(n * (k / 4) ** 0.5) for k in (1, 2, 3)] + [n]
            for k in range(4):
                jobs.append(("inst", {"kind": "instance", "name": nm,
                                      "recheck": True,
                                      "rows": [cuts[k], cuts[k + 1]]}))
        else:
            jobs.append(("inst", {"kind": "instance", "name": nm,
                                  "recheck": rc}))
    # big jobs first
    jobs.sort(key=lambda j: -M.n_from_name(j[1]["name"]))
    return jobs, skipped


# ================================================================== driver
CASES = {"text": case_text, "roundtrip": case_roundtrip,
         "coords": lambda r: case_coords(r)[:3], "tour": case_tour,
         "instance": lambda r: case_instance(r)[:3]}


def _report(ctx, sig, msg, rep):
    """Re-execute the failing case; it must fail again."""
    st, sig2, msg2 = CASES[rep["kind"]](rep)
    _cleanup()
    if st != "bad" or sig2 != sig:
        # The enumeration is deterministic; a case that fails inside it but
        # not when executed alone depends on what was loaded or written
        # earlier in the same process (e.g. a cache keyed on a file path).
        sig = sig + "|only after earlier cases in the same process"
        msg = ("[passes when re-executed alone: the result depends on "
               "earlier loads/writes in the same process] " + msg)
    ctx.violation(sig, msg, rep)


def run(ctx: Ctx) -> None:
    import moptipyapps.tsp.instance  # noqa  (import before forking)
    import moptipyapps.tsp.known_optima  # noqa
    distinct = 0

    # ---- (a)
    jobs = explicit_jobs(ctx)
    out = pmap(_job_text, [(j[1], j[2], j[3]) for j in jobs], ctx.jobs)
    groups = set()
    capped = set()
    for j, (cnt, rej, fail) in zip(jobs, out):
        nm, spec, sel, via, total = j
        ctx.add("evaluations", cnt)
        ctx.add("traces_validated_against_impl", cnt - rej)
        ctx.part(nm, texts=cnt, loud_rejections_nonzero_diagonal=rej)
        ctx.part(nm, wrappings_per_text_family=str(total))
        if sel[0] == "few":
            capped.add((nm, spec[2], spec[3], total))
        if fail:
            _report(ctx, *fail)
        elif cnt > rej:
            groups.add(spec)
    for nm, kind, diag, total in sorted(capped):
        ctx.cap(f"{nm}: matrix {kind}, diagonal {diag}: only the wrappings "
                f"with <= 4 line breaks or <= 4 joined gaps, not all "
                f"{total} (all of them for the asymmetric pairwise distinct "
                f"matrix with zero diagonal)")
    distinct += len(groups)
    ctx.log(f"(a) explicit formats: {sum(o[0] for o in out)} texts, "
            f"{len(groups)} (n, format, matrix, diagonal, style) groups")
    lines, exp = explicit_text((3, "UPPER_DIAG_ROW", "distinct_sym", 9999,
                                "plain"), 0b01101)
    ctx.sample({"part": "a", "lines": lines, "loads_as": exp["matrix"]})

    # ---- (b)
    jobs = roundtrip_jobs(ctx)
    out = pmap(_job_roundtrip, [j[1] for j in jobs], ctx.jobs)
    acc = 0
    for j, (cnt, rej, nsym, odd, fail) in zip(jobs, out):
        ctx.add("evaluations", cnt)
        ctx.add("traces_validated_against_impl", cnt - rej)
        ctx.part(j[0], matrices_x_names_x_comments=cnt,
                 rejected_by_constructor=rej, round_trips=cnt - rej,
                 symmetric_round_trips=nsym,
                 rejected_although_every_row_has_a_positive_entry=odd)
        acc += cnt - rej
        if fail:
            _report(ctx, *fail)
    distinct += acc
    ctx.log(f"(b) round trips: {acc} accepted matrices written and re-read")
    m = [[0, 127, 10 ** 12], [128, 0, 0], [32768, 1, 0]]
    ctx.sample({"part": "b", "matrix": m,
                "status": case_roundtrip({"name": "rt", "matrix": m})[2]})

    # ---- (c)
    jobs = coords_jobs(ctx)
    out = pmap(_job_coords, [j[1] for j in jobs], ctx.jobs)
    seen = {}
    for j, (loads, dec, und, outcomes, fail) in zip(jobs, out):
        ctx.add("evaluations", loads)
        ctx.add("traces_validated_against_impl", dec)
        ctx.part(j[0], ordered_pairs=loads, all_ordered_pairs=str(j[2]),
                 distances_compared=dec,
                 distances_not_demanded_float_boundary=und)
        seen.setdefault(j[1][0], set()).update(outcomes)
        if fail:
            _report(ctx, *fail)
    for metric, s in seen.items():
        ctx.part(f"c_{metric}_ordered_pairs", distinct_distances=len(s))
        distinct += len(s)
    aj = []
    for metric in METRICS:
        pts, _ = grids(ctx, metric)
        aj += [(metric, pts, False), (metric, pts, True)]
    for (metric, pts, rev), (st, sig, msg, rep, dec, und) in zip(
            aj, pmap(_job_allpoints, aj, ctx.jobs)):
        ctx.add("evaluations", 1)
        ctx.add("traces_validated_against_impl", dec)
        ctx.part(f"c_{metric}_all_points_one_instance", instances=1,
                 cities=len(pts), distances_compared=dec,
                 distances_not_demanded_float_boundary=und)
        if st == "bad":
            _report(ctx, sig, msg, rep)
        elif st == "rejected":
            raise HarnessError(f"all-points text rejected: {msg}")
    ctx.log("(c) coordinates: distinct distances "
            + str({k: len(v) for k, v in seen.items()}))
    for metric, pa, pb in (("EUC_2D", ("0", "0"), ("0.5", "0")),
                           ("ATT", ("1", "3"), ("0", "0")),
                           ("ATT", ("10", "0"), ("0", "0")),
                           ("CEIL_2D", ("3", "0"), ("0", "0")),
                           ("GEO", ("16.47", "96.10"), ("-5.30", "20.42"))):
        d = model_distance(metric, M.GeoModel(), pa, pb)
        try:
            got = int(load_lines(coord_text(metric,
                                            [pa, pb, GEO_ANCHOR]))[0, 1])
        except Exception as e:  # noqa  (samples never decide anything)
            got = f"{type(e).__name__}: {e}"
        ctx.sample({"part": "c", "metric": metric, "a": pa, "b": pb,
                    "tsplib95": d[0], "why": d[1], "reader": got})

    # ---- (d)
    jobs, skipped = shipped_jobs(ctx)
    out = pmap(_job_shipped, jobs, ctx.jobs)
    ntour = ninst = 0
    names = set()
    for (st, sig, msg, rep, kind, checked, und) in out:
        ctx.add("evaluations", 1)
        ctx.add("traces_validated_against_impl", max(1, checked))
        if kind == "tour":
            ntour += 1
            ctx.part("d_shipped_tours", tours=1)
        else:
            names.add(rep["name"])
            ctx.part(f"d_shipped_instances_{kind}", jobs=1,
                     entries_recomputed=checked,
                     distances_not_demanded_float_boundary=und)
        if st == "bad":
            _report(ctx, sig, msg, rep)
    ninst = len(names)
    ctx.part("d_shipped_instances", instances=ninst, tours=ntour)
    distinct += ninst + ntour
    if skipped:
        ctx.cap(f"matrices of the {len(skipped)} shipped instances with more"
                f" than 450 cities are not recomputed in the quick tier "
                f"(they are loaded and their size is checked): "
                + " ".join(skipped))
    ctx.log(f"(d) shipped: {ntour} tours, {ninst} instances")
    ctx.sample({"part": "d", "tour": "cn11",
                "status": case_tour({"name": "cn11"})[2]})

    ctx.cov["distinct_nontrivial"] = distinct
    ctx.cov["rule"] = (
        "(a) every wrapping (bit mask over the gaps of the number list) of "
        "every (n, format, matrix kind, diagonal, layout style); (b) every "
        "matrix over the value alphabet by index; (c) every ordered pair of "
        "grid points per metric inside a 3-city text plus all points in one "
        "text, forwards and backwards; (d) every shipped tour / instance. "
        "distinct_nontrivial = groups of (a) that loaded + matrices of (b) "
        "that were accepted, written and re-read + distinct distances seen "
        "per metric in (c) + shipped instances and tours")
    ctx.assume("explicit formats: n <= 4 (quick) / 5 (thorough), one "
               "pairwise distinct symmetric, one pairwise distinct "
               "asymmetric (FULL_MATRIX) and the all-equal matrix; diagonal "
               "numbers 0, or 9999 / 7 (then a loud rejection is accepted)")
    ctx.assume("round trip: n = 2, 3 over {0,1,2,127,128,32767,32768,10^12},"
               " n = 4 symmetric over the same (thorough) / over "
               "{0,1,128,32768,10^12} (quick), n = 4 over {0,1,B} "
               "(thorough); matrices the constructor rejects loudly are "
               "counted, not judged")
    ctx.assume("coordinates with at most 3 decimals; a distance is demanded "
               "only where the TSPLIB95 value does not depend on double "
               "rounding (stable under 1e-13 relative change of the squared "
               "distance, or exactly on a rounding boundary with exactly "
               "representable intermediates; GEO: 1e-12 away from a "
               "truncation boundary in the arc cosine argument); GEO degrees"
               " are truncated (TSPLIB FAQ)")
    _cleanup()


def replay(ctx: Ctx, rep: dict) -> bool:
    if "rows" in rep:
        rep["rows"] = tuple(rep["rows"])
    st, sig, msg = CASES[rep["kind"]](rep)
    _cleanup()
    print(f"{st}: {sig} {msg}"[:2000])
    return st != "bad"
