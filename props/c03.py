"""C03: the bin-count lower bound never exceeds an achievable packing."""
import itertools

import numpy as np

from mc.core import Ctx, pmap
from models import fits as F
from props import pack_common as C


def multisets(W, H, k):
    if k < 0:  # the squares family: all multisets of -k squares
        types = [(a, a) for a in range(1, min(W, H) + 1)]
        return itertools.combinations_with_replacement(types, -k)
    types = C.item_types(W, H)
    return itertools.combinations_with_replacement(types, k)


def job(a):
    from moptipyapps.binpacking2d.instance import Instance
    from moptipyapps.binpacking2d.objectives.bin_count import BinCount
    W, H, k, shard, nshards = a
    ninst = 0
    searched = 0
    states = [0]
    bads = []
    above_area = 0
    distinct_lb = set()
    for idx, ms in enumerate(multisets(W, H, k)):
        if idx % nshards != shard:
            continue
        # merged rows (type x multiplicity) and unmerged rows
        merged = []
        for t in ms:
            if merged and merged[-1][:2] == list(t):
                merged[-1][2] += 1
            else:
                merged.append([t[0], t[1], 1])
        variants = [merged]
        if len(merged) < abs(k):
            variants.append([[t[0], t[1], 1] for t in ms])
        lbs = []
        try:
            # the merged rows also as an integer array in the narrowest type
            # (callers may pass arrays; the bound must be valid then, too)
            mx = max(max(r) for r in merged)
            nt = next(t for t in (np.int8, np.int16, np.int32, np.int64)
                      if np.iinfo(t).max >= mx)
            ai = Instance("v", W, H, np.array(merged, nt))
            for rows in variants:
                inst = C.make_instance(W, H, rows)
                lbs.append(int(inst.lower_bound_bins))
            lbs.append(int(ai.lower_bound_bins))
            variants = variants + [merged]
        except Exception as e:  # noqa  a valid instance must be constructible
            bads.append(("Instance|constructor raises for a valid instance",
                         W, H, merged, f"{type(e).__name__}: {e}", "ok"))
            continue
        ninst += 1
        lb = lbs[0]
        distinct_lb.add(lb)
        area = sum(w * h for (w, h) in ms)
        geo = -(-area // (W * H))
        # the bound of the other listing of the same items (one row per
        # item) need not be the same number, but must be a valid bound too
        for lb2 in set(lbs[1:]) - {lb}:
            if lb2 < geo or lb2 < 1:
                bads.append(("Instance|lower bound below the area bound", W,
                             H, [list(r) for r in variants[-1]], lb2, geo))
            elif lb2 > geo:
                cert = F.fits(list(ms), lb2 - 1, W, H, want_cert=True,
                              stats=states)
                if cert is not None:
                    bads.append(("Instance|lower bound exceeds the optimum",
                                 W, H, [list(r) for r in variants[-1]], lb2,
                                 cert))
        if lb < geo or lb < 1:
            bads.append(("Instance|lower bound below the area bound", W, H,
                         merged, lb, geo))
        if inst.total_item_area != area or inst.n_items != abs(k):
            bads.append(("Instance|area or item count wrong", W, H, merged,
                         (inst.total_item_area, inst.n_items), (area, k)))
        # the objective's own lower bound must be a valid bound as well (it
        # need not be the same number): decided by the packing search if it
        # claims more than the instance's bound
        ob = int(BinCount(inst).lower_bound())
        if ob > lb and ob > geo:
            cert = F.fits(list(ms), ob - 1, W, H, want_cert=True,
                          stats=states)
            if cert is not None:
                bads.append(("BinCount|lower bound exceeds the optimum", W,
                             H, merged, ob, cert))
        if lb > geo:
            above_area += 1
            searched += 1
            cert = F.fits(list(ms), lb - 1, W, H, want_cert=True,
                          stats=states)
            if cert is not None:
                bads.append(("Instance|lower bound exceeds the optimum", W,
                             H, merged, lb, cert))
        if lb > abs(k):
            bads.append(("Instance|lower bound exceeds the number of items",
                         W, H, merged, lb, abs(k)))
        if len(bads) > 10:
            break
    return ninst, searched, states[0], bads, above_area, sorted(distinct_lb)


def huge_family():
    """
    Thin bins with huge total areas; the optimum is known by construction.

    Full-width strips fill one row each, the unit squares need ceil(e / row
    capacity) more rows: optimum = ceil((r + ceil(e / W)) / H) for a W x H
    bin with r strips W x 1 and e unit squares (e <= W).
    """
    fam = []
    for (W, H) in ((10 ** 12, 1), (2 ** 40, 1), (3 * 10 ** 9, 2),
                   (2 ** 31, 3), (10 ** 9 + 7, 1), (2 ** 52 + 1, 1)):
        for r in (1, 2, 3, 99_999_999, 100_000_000 - 3, 2 ** 20 + 1):
            for e in (1, 2, 7):
                rows = [[W, 1, r], [1, 1, e]]
                strips = r + 1  # e <= W unit squares fit into one more strip
                opt = -(-strips // H)
                fam.append((W, H, rows, opt))
                if H > 1:
                    fam.append((H, W, [[1, W, r], [1, 1, e]], opt))
    return fam


def _huge_one(a):
    W, H, rows = a
    try:
        inst = C.make_instance(W, H, rows)
    except (ValueError, OverflowError):
        return None  # loudly refused (limits of the constructor)
    return int(inst.lower_bound_bins), int(inst.total_item_area)


def check_huge(ctx):
    """
    The huge thin-bin family.

    Each constructor call runs in a worker process with a generous wall
    clock guard (normally < 1 ms): a change that makes the constructor loop
    over a huge side would otherwise hang the whole check. A timeout is
    recorded as a cap, never as a violation.
    """
    import multiprocessing as mp
    cnt = 0
    fam = huge_family()
    pool = mp.get_context("fork").Pool(min(ctx.jobs, 8))
    pending = [(f, pool.apply_async(_huge_one, ((f[0], f[1], f[2]),)))
               for f in fam]
    results = []
    try:
        for f, r in pending:
            try:
                results.append((f, r.get(timeout=180)))
            except mp.TimeoutError:
                ctx.cap(f"huge thin bins: the constructor did not return "
                        f"within 180 s for bin {f[0]}x{f[1]} items={f[2]}; "
                        "family abandoned")
                break
    finally:
        pool.terminate()
    for (W, H, rows, opt), got in results:
        if got is None:
            continue
        lb, tia = got
        cnt += 1
        area = sum(r[0] * r[1] * r[2] for r in rows)
        geo = -(-area // (W * H))
        if tia != area:
            ctx.violation("Instance|area or item count wrong",
                          f"bin {W}x{H} items={rows}: total_item_area="
                          f"{tia}, exact {area}",
                          {"W": W, "H": H, "rows": rows, "huge": True})
        if lb < geo:
            ctx.violation("Instance|lower bound below the area bound",
                          f"bin {W}x{H} items={rows}: lower_bound_bins={lb} "
                          f"but ceil(area / bin area) = {geo} (exact integer "
                          f"arithmetic)", {"W": W, "H": H, "rows": rows,
                                           "huge": True})
        if lb > opt:
            ctx.violation("Instance|lower bound exceeds the optimum",
                          f"bin {W}x{H} items={rows}: lower_bound_bins={lb} "
                          f"but {opt} bins suffice (strips)",
                          {"W": W, "H": H, "rows": rows, "huge": True})
    ctx.add("evaluations", cnt)
    ctx.add("traces_validated_against_impl", cnt)
    ctx.part("huge_thin_bins", instances=cnt,
             of_family=len(huge_family()))
    ctx.log(f"huge thin bins: {cnt} instances with total areas up to 1e20")


def specs(ctx):
    s = []
    if ctx.quick:
        for W in range(1, 6):
            for H in range(1, 6):
                for k in range(1, 5):
                    s.append((W, H, k))
        for (W, H) in ((6, 6), (6, 4), (4, 6), (5, 5), (6, 5), (5, 6)):
            s.append((W, H, 5 if W * H <= 25 else 4))
        s += [(6, 6, 1), (6, 6, 2), (6, 6, 3), (6, 3, 5), (3, 6, 5)]
        # squares only (the bound works on squares), larger non-square bins
        for W in range(1, 13):
            for H in range(1, 13):
                for k in (1, 2, 3, 4):
                    s.append((W, H, -k))
    else:
        for W in range(1, 7):
            for H in range(1, 7):
                for k in range(1, 6):
                    s.append((W, H, k))
        for W in range(1, 9):
            for H in range(1, 9):
                if W > 6 or H > 6:
                    for k in range(1, 4):
                        s.append((W, H, k))
        for W in range(1, 5):
            for H in range(1, 5):
                s.append((W, H, 6))
        s += [(7, 7, 4), (8, 8, 4), (8, 6, 4), (6, 8, 4), (7, 5, 4),
              (5, 7, 4), (10, 10, 3), (12, 5, 3), (5, 12, 3), (9, 6, 3),
              (6, 9, 3), (9, 7, 3), (7, 9, 3), (10, 7, 3), (7, 10, 3)]
        for W in range(1, 17):
            for H in range(1, 17):
                for k in (1, 2, 3, 4, 5):
                    s.append((W, H, -k))
        s += [(23, 20, -3), (20, 23, -3), (23, 20, -4), (20, 14, -4),
              (14, 20, -4)]
    return s


def run(ctx: Ctx) -> None:
    jobs = []
    import math
    for (W, H, k) in specs(ctx):
        nt = len(C.item_types(W, H)) if k > 0 else min(W, H)
        cnt = math.comb(nt + abs(k) - 1, abs(k))
        ns = 1 if cnt < 4000 else min(256, max(ctx.jobs, cnt // 4000))
        jobs += [(W, H, k, s, ns) for s in range(ns)]
    jobs.sort(key=lambda j: -(math.comb(
        (len(C.item_types(j[0], j[1])) if j[2] > 0 else min(j[0], j[1]))
        + abs(j[2]) - 1, abs(j[2])) // j[4]))
    out = pmap(job, jobs, ctx.jobs)
    ninst = searched = states = above = 0
    lbs = set()
    for (n, s, st, bads, ab, dl) in out:
        ninst += n
        searched += s
        states += st
        above += ab
        lbs.update(dl)
        for b in bads:
            sig, W, H, rows, got, exp = b
            ctx.violation(sig, f"bin {W}x{H} items={rows}: {sig}: "
                          f"{got} vs {exp}",
                          {"W": W, "H": H, "rows": [list(r) for r in rows]})
    ctx.add("evaluations", ninst)
    ctx.add("states", states + ninst)
    ctx.add("transitions", states + ninst)
    ctx.add("traces_validated_against_impl", ninst)
    ctx.part("instances", instances=ninst,
             bound_above_area_bound=above, packing_searches=searched,
             search_states=states, distinct_lower_bounds=sorted(lbs),
             specs=[list(s) for s in specs(ctx)])
    ctx.log(f"{ninst} instances, {above} with a bound above the area bound"
            f" decided by {searched} explicit-state searches ({states} "
            f"states)")
    check_huge(ctx)
    ctx.cov["distinct_nontrivial"] = above
    ctx.cov["rule"] = (
        "all item multisets of size k (k<0: of |k| squares) for all bins "
        "within the specs (merged "
        "and unmerged row form); non-trivial = instances whose lower bound "
        "is above the area bound, so that 'lb <= optimum' had to be decided"
        " by the packing search")
    ctx.sample({"bin": [5, 5], "items": [[3, 3, 3]],
                "lower_bound": int(C.make_instance(
                    5, 5, [[3, 3, 3]]).lower_bound_bins),
                "fits_in_2_bins": F.fits([(3, 3)] * 3, 2, 5, 5) is not None})
    ctx.assume("the second independent bound (no decoding uses fewer bins "
               "than the bound) is checked on every leaf of the C01 trees")


def replay(ctx: Ctx, rep: dict) -> bool:
    W, H, rows = rep["W"], rep["H"], rep["rows"]
    inst = C.make_instance(W, H, rows)
    if rep.get("huge"):
        area = sum(r[0] * r[1] * r[2] for r in rows)
        geo = -(-area // (W * H))
        print(f"lower_bound_bins={inst.lower_bound_bins} area bound={geo}")
        return geo <= inst.lower_bound_bins
    items = []
    for r in rows:
        items += [(r[0], r[1])] * r[2]
    opt = F.min_bins(items, W, H)
    area = -(-sum(w * h for w, h in items) // (W * H))
    print(f"lower_bound_bins={inst.lower_bound_bins} area bound={area} "
          f"optimum (search)={opt}")
    return area <= inst.lower_bound_bins <= opt
