"""C14: decoders follow the documented bottom-left rule, statelessly."""
import numpy as np

from mc.core import Ctx, pmap
from models import packing as P
from props import c01 as C01
from props import pack_common as C


def report(ctx, W, H, rows, x, enc, where, got=None, exp=None):
    rows = [[int(v) for v in r] for r in rows]
    x = [int(v) for v in x]
    inst = C.make_instance(W, H, rows)
    seq = inst.get_standard_item_sequence()
    rest = list(seq)
    for v in x:
        rest.remove(abs(v))
    full = list(x) + rest
    if exp is None:
        exp_rows, exp_nb = P.model_decode(full, np.asarray(inst), W, H, enc)
        got_rows, got_nb, _ = C.public_decode(inst, enc, full, poison=-1)
        got = (got_rows.tolist(), got_nb)
        exp = (exp_rows.tolist(), int(exp_nb))
    ctx.violation(
        f"ibf{enc}|differs from documented rule|{where}",
        f"bin {W}x{H} items(w,h,rep)={rows} x={full} (first difference "
        f"within the first {len(x)} items) encoding {enc}: decoder gives "
        f"{got}, documented rule gives {exp} [{where}]",
        {"W": W, "H": H, "rows": rows, "x": full, "enc": enc})


def scratch_arrays(enc_obj):
    from moptipyapps.binpacking2d.instance import Instance
    return [v for k, v in sorted(vars(enc_obj).items())
            if isinstance(v, np.ndarray) and not isinstance(v, Instance)]


def history_job(a):
    """Explicit-state exploration of decode/poison histories, to fixpoint."""
    from moptipyapps.binpacking2d.encodings.ibl_encoding_1 import (
        ImprovedBottomLeftEncoding1,
    )
    from moptipyapps.binpacking2d.encodings.ibl_encoding_2 import (
        ImprovedBottomLeftEncoding2,
    )
    from moptipyapps.binpacking2d.packing import Packing
    W, H, rows, enc = a
    inst = C.make_instance(W, H, rows)
    n = inst.n_items
    eo = (ImprovedBottomLeftEncoding1 if enc == 1
          else ImprovedBottomLeftEncoding2)(inst)
    dest = Packing(inst)
    scr = scratch_arrays(eo)
    attrs0 = sorted(vars(eo).keys())
    xs = list(C.signed_perms(rows))
    expect = {}
    for x in xs:
        r, nb = P.model_decode(x, np.asarray(inst), W, H, enc)
        expect[tuple(x)] = (r.astype(np.int64), int(nb))
    mx = int(np.iinfo(dest.dtype).max)
    other = expect[tuple(xs[-1])][0].copy()
    other[:, 1] = 1
    ops = [("decode", x) for x in xs] + [
        ("fill", -1), ("fill", mx), ("rows", other.tolist()),
        ("scratch", n - 1), ("scratch", -1), ("scratch", mx)]

    def get_state():
        return (dest.tobytes(), int(dest.n_bins),
                tuple(s.tobytes() for s in scr))

    def set_state(st):
        dest[:, :] = np.frombuffer(st[0], dest.dtype).reshape(dest.shape)
        dest.n_bins = st[1]
        for s, b in zip(scr, st[2]):
            s[:] = np.frombuffer(b, s.dtype)

    dest.fill(-1)
    dest.n_bins = -1
    for s in scr:
        s.fill(0)
    init = get_state()
    seen = {init: ()}
    frontier = [init]
    transitions = 0
    bad = None
    depth = 0
    maxdepth = 0
    xx = np.zeros(n, inst.dtype)
    try:
        from moptipy.spaces.signed_permutations import SignedPermutations
        xx = SignedPermutations(inst.get_standard_item_sequence()).create()
    except ValueError:
        pass
    while frontier and bad is None:
        nxt = []
        depth += 1
        for st in frontier:
            for op in ops:
                set_state(st)
                if op[0] == "decode":
                    xx[:] = op[1]
                    eo.decode(xx, dest)
                    er, enb = expect[tuple(op[1])]
                    if dest.n_bins != enb or \
                            not np.array_equal(np.asarray(dest), er):
                        bad = (list(seen[st]) + [list(op)],
                               (np.asarray(dest).tolist(), dest.n_bins),
                               (er.tolist(), enb))
                        break
                elif op[0] == "fill":
                    dest.fill(op[1])
                elif op[0] == "rows":
                    dest[:, :] = np.array(op[1])
                elif op[0] == "scratch":
                    if not scr:
                        continue
                    for s in scr:
                        s.fill(op[1])
                transitions += 1
                ns = get_state()
                if ns not in seen:
                    seen[ns] = seen[st] + (op,)
                    nxt.append(ns)
                    maxdepth = depth
            if bad:
                break
        frontier = nxt
    if sorted(vars(eo).keys()) != attrs0 and bad is None:
        bad = ([], "encoder attributes changed", attrs0)
    return (W, H, rows, enc, len(seen), transitions, maxdepth, bad, len(xs))


def replay_job(a):
    """
    Histories replayed on a FRESH encoder and a fresh destination.

    The fixpoint exploration above restores only the visible state
    (destination, scratch arrays); an encoder that remembers anything else
    (e.g. its last input) is only exposed if whole histories are replayed on
    one live object. All histories of length <= 3 over decode(x) for every
    x, fill(-1), fill(max), rows(other decoding) are replayed when the
    permutation alphabet is small; otherwise all histories of length 2 and
    the length-3 shapes [decode x, any op, decode x].
    """
    from moptipyapps.binpacking2d.encodings.ibl_encoding_1 import (
        ImprovedBottomLeftEncoding1,
    )
    from moptipyapps.binpacking2d.encodings.ibl_encoding_2 import (
        ImprovedBottomLeftEncoding2,
    )
    from moptipyapps.binpacking2d.packing import Packing
    from moptipyapps.binpacking2d.packing_space import PackingSpace
    W, H, rows, enc = a
    inst = C.make_instance(W, H, rows)
    n = inst.n_items
    cls = ImprovedBottomLeftEncoding1 if enc == 1 \
        else ImprovedBottomLeftEncoding2
    xs = [tuple(x) for x in C.signed_perms(rows)]
    expect = {}
    for x in xs:
        r, nb = P.model_decode(x, np.asarray(inst), W, H, enc)
        expect[x] = (r.astype(np.int64), int(nb))
    other = expect[xs[-1]][0].copy()
    other[:, 1] = 1
    space = PackingSpace(inst)
    src = Packing(inst)
    src[:, :] = expect[xs[0]][0]
    src.n_bins = expect[xs[0]][1]
    mx = int(np.iinfo(inst.dtype).max)
    nond = [("fill", -1), ("fill", mx), ("rows", None), ("copy", None)]
    ops = [("decode", x) for x in xs] + nond
    try:
        from moptipy.spaces.signed_permutations import SignedPermutations
        xx = SignedPermutations(inst.get_standard_item_sequence()).create()
    except ValueError:
        xx = np.zeros(n, inst.dtype)

    def seqs():
        for o1 in ops:
            for o2 in ops:
                yield (o1, o2)
        if len(xs) <= 48:
            for o1 in ops:
                for o2 in ops:
                    for o3 in ops:
                        if o3[0] == "decode":
                            yield (o1, o2, o3)
        else:
            for x in xs:
                for o2 in ops:
                    yield (("decode", x), o2, ("decode", x))

    cnt = 0
    steps = 0
    for sq in seqs():
        eo = cls(inst)
        dest = Packing(inst)
        dest.fill(-1)
        cnt += 1
        for op in sq:
            steps += 1
            if op[0] == "decode":
                xx[:] = op[1]
                eo.decode(xx, dest)
                er, enb = expect[op[1]]
                if dest.n_bins != enb or \
                        not np.array_equal(np.asarray(dest), er):
                    return (W, H, rows, enc, cnt, steps,
                            ([list(o) if o[1] is None or isinstance(
                                o[1], int) else [o[0], list(o[1])]
                              for o in sq],
                             (np.asarray(dest).tolist(), dest.n_bins),
                             (er.tolist(), enb)))
            elif op[0] == "fill":
                dest.fill(op[1])
            elif op[0] == "rows":
                dest[:, :] = other
            else:
                space.copy(dest, src)
    return (W, H, rows, enc, cnt, steps, None)


def history_instances(ctx):
    li = [(2, 2, [[2, 1, 2], [1, 1, 1]]),
          (3, 3, [[2, 2, 2], [1, 3, 1]]),
          (4, 3, [[3, 2, 1], [2, 2, 1], [1, 1, 1]]),
          (3, 4, [[2, 3, 1], [3, 1, 1], [1, 2, 1]]),
          (1, 1, [[1, 1, 3]]),
          (3, 3, [[3, 3, 1], [3, 1, 1], [1, 2, 1]])]
    if not ctx.quick:
        li += [(4, 4, [[2, 3, 1], [3, 2, 1], [2, 2, 1], [1, 4, 1]]),
               (5, 3, [[3, 2, 2], [2, 2, 1], [1, 3, 1]]),
               (3, 3, [[2, 1, 2], [1, 2, 2]]),
               (4, 2, [[3, 1, 1], [2, 2, 1], [1, 1, 2]])]
    return li


def run(ctx: Ctx) -> None:
    C.drivers()
    sp = C01.specs(ctx)
    if ctx.quick:
        # five items on 4x4: the smallest bin on which an item can slide
        # under an exactly fitting overhang and fall again afterwards
        sp = sp + [(4, 4, 5, 5)]
    # six items on 3x3: the smallest case in which an item type that did
    # not fit into a bin fits into it LATER (a lid covers the pit in which
    # the first copy got stuck): "bins only get fuller" memos break here
    sp = sp + [(3, 3, 6, 6)]
    if not ctx.quick:
        sp = sp + [(4, 3, 6, 6)]
    r = C.explore_trees(ctx, sp)
    ctx.add("states", r["nodes"])
    ctx.add("transitions", r["nodes"])
    ctx.add("evaluations", r["nodes"])
    ctx.add("traces_validated_against_impl", r["nodes"])
    ctx.part("prefix_trees", specs=[list(s) for s in sp],
             **{k: v for k, v in r.items() if not k.startswith("bad")})
    ctx.log(f"trees: {r['instances']} instances, {r['nodes']} nodes "
            f"compared with the unit-step model, mismatches="
            f"{r['mismatches']}")
    if r["bad14"] is not None:
        W, H, rows, x, enc = r["bad14"]
        report(ctx, W, H, rows, x, enc, "kernel, prefix tree")
    # interpreted model + public API on a sub-alphabet (model-vs-model and
    # wrapper binding)
    pub = 0
    pub_specs = [(3, 2, 1, 3), (2, 3, 1, 3), (4, 2, 1, 2), (1, 4, 1, 3)]
    if not ctx.quick:
        pub_specs += [(4, 3, 1, 3), (3, 4, 1, 3), (3, 3, 4, 4)]
    distinct = set()
    for (W, H, kmin, kmax) in pub_specs:
        for rows in C.enum_instances(W, H, kmax, kmin):
            inst = C.make_instance(W, H, rows)
            ia = np.asarray(inst)
            for x in C.signed_perms(rows):
                for enc in (1, 2):
                    got, nb, _ = C.public_decode(inst, enc, x, poison=77)
                    er, enb = P.model_decode(x, ia, W, H, enc)
                    pub += 1
                    if nb != enb or not np.array_equal(got, er):
                        report(ctx, W, H, rows, x, enc, "public API",
                               (got.tolist(), nb), (er.tolist(), int(enb)))
                    elif nb > 1:
                        distinct.add((W, H, got.tobytes()))
            if ctx.too_many():
                break
    ctx.add("evaluations", pub)
    ctx.add("traces_validated_against_impl", pub)
    ctx.part("public_api_vs_interpreted_model", decodings=pub,
             distinct_multi_bin_packings=len(distinct))
    ctx.log(f"public API vs interpreted model: {pub} decodings")
    # statelessness: explicit-state exploration of histories
    jobs = [(W, H, rows, enc) for (W, H, rows) in history_instances(ctx)
            for enc in (1, 2)]
    out = pmap(history_job, jobs, ctx.jobs)
    hs = ht = 0
    for (W, H, rows, enc, ns, nt, md, bad, nx) in out:
        hs += ns
        ht += nt
        ctx.part(f"history_{W}x{H}_{rows}_ibf{enc}", states=ns,
                 transitions=nt, max_depth=md, permutations=nx,
                 fixpoint=bad is None)
        if bad is not None:
            hist, got, exp = bad
            ctx.violation(
                f"ibf{enc}|result depends on history",
                f"bin {W}x{H} items={rows} encoding {enc}: after history "
                f"{hist} the decoder gives {got} but the rule gives {exp}",
                {"W": W, "H": H, "rows": rows, "enc": enc,
                 "history": hist})
    out = pmap(replay_job, jobs, ctx.jobs)
    for (W, H, rows, enc, cnt, steps, bad) in out:
        hs += cnt
        ht += steps
        ctx.part(f"replayed_histories_{W}x{H}_{rows}_ibf{enc}",
                 histories=cnt, operations=steps)
        if bad is not None:
            hist, got, exp = bad
            ctx.violation(
                f"ibf{enc}|result depends on history",
                f"bin {W}x{H} items={rows} encoding {enc}: history {hist} "
                f"replayed on a fresh encoder and destination: the last "
                f"decode gives {got} but the rule gives {exp}",
                {"W": W, "H": H, "rows": rows, "enc": enc,
                 "history": hist})
    ctx.add("states", hs)
    ctx.add("transitions", ht)
    ctx.add("traces_validated_against_impl", ht)
    ctx.log(f"histories: states={hs} transitions={ht} (to fixpoint)")
    ctx.cov["distinct_nontrivial"] = r["multi_bin_leaves"]
    ctx.cov["rule"] = (
        "every prefix of every signed permutation with repetition of every"
        " instance within the specs, both encodings, compared with the "
        "unit-step model; non-trivial = multi-bin leaf decodings; histories:"
        " all decode/poison operation sequences to fixpoint of the "
        "(destination, scratch) state graph")
    ctx.sample({"bin": [3, 3], "items": [[2, 2, 2], [1, 3, 1]],
                "x": [1, -2, 1], "encoding": 2,
                "model": P.model_decode([1, -2, 1], np.array(
                    [[2, 2, 2], [1, 3, 1]]), 3, 3, 2)[0].tolist()})
    ctx.sample({"history": [["fill", -1], ["decode", [2, 1, 1]],
                            ["scratch", 2], ["decode", [1, -2, 1]]]})
    ctx.assume("bins up to 5x5 (6x6/8x8 with <=3/2 items), <=5 items")


def replay(ctx: Ctx, rep: dict) -> bool:
    W, H, rows, enc = rep["W"], rep["H"], rep["rows"], rep["enc"]
    inst = C.make_instance(W, H, rows)
    if "history" in rep:
        r = history_job((W, H, rows, enc))
        r2 = replay_job((W, H, rows, enc))
        print(r[7], r2[6])
        return r[7] is None and r2[6] is None
    x = rep["x"]
    got, nb, _ = C.public_decode(inst, enc, x, poison=-1)
    er, enb = P.model_decode(x, np.asarray(inst), W, H, enc)
    print(f"decoder: {got.tolist()} n_bins={nb}\nrule:    {er.tolist()} "
          f"n_bins={enb}")
    return nb == enb and np.array_equal(got, er)
