"""Shared machinery of the bin packing properties (C01, C14, C02, C03, C04)."""
import itertools

import numpy as np

from models import packing as P

_DRV = {}
_XCACHE = {}


def item_types(W, H):
    """All (w, h) the instance constructor accepts for a W x H bin."""
    mx, mn = max(W, H), min(W, H)
    return [(w, h) for w in range(1, mx + 1) for h in range(1, mx + 1)
            if not (w > mn and h > mn)]


def enum_instances(W, H, kmax, kmin=1):
    """
    All instances (as row lists [w, h, rep]) with kmin..kmax items in total.

    Rows are non-decreasing (row order only renames ids); the same size may
    occur as two separate types or as one type with multiplicity 2.
    """
    types = item_types(W, H)
    rows = [(w, h, r) for (w, h) in types for r in range(1, kmax + 1)]

    def rec(start, left, acc):
        if acc and (kmax - left) >= kmin:
            yield [list(r) for r in acc]
        if left == 0:
            return
        for i in range(start, len(rows)):
            r = rows[i]
            if r[2] <= left:
                yield from rec(i, left - r[2], acc + [r])
    yield from rec(0, kmax, [])


def n_signed_perms(rows):
    import math
    n = sum(r[2] for r in rows)
    c = math.factorial(n)
    for r in rows:
        c //= math.factorial(r[2])
    return c * (2 ** n)


def drivers():
    if _DRV:
        return _DRV
    import numba
    from moptipyapps.binpacking2d.encodings.ibl_encoding_1 import (
        _decode as dec1,
    )
    from moptipyapps.binpacking2d.encodings.ibl_encoding_2 import (
        _decode as dec2,
    )
    from mc.jit import compile_module

    def caller(dec, enc_id):
        """njit call(x, y, a) = dec(x, y, a[0], ..., a[m-1])."""
        probe = make_instance(2, 2, [[1, 1, 2]])
        m = len(kernel_args(enc_id, probe)[0])
        src = ("def call(x, y, a):\n    return dec(x, y, "
               + ", ".join(f"a[{i}]" for i in range(m)) + ")\n")
        env = {"dec": dec}
        exec(src, env)  # noqa
        return numba.njit(cache=False)(env["call"])
    call1 = caller(dec1, 1)
    call2 = caller(dec2, 2)
    ns = compile_module(P, ["_free", "ibl_try_bin", "ibl_place",
                            "paint_check"])
    place = ns["ibl_place"]
    paint = ns["paint_check"]
    try_bin = ns["ibl_try_bin"]

    @numba.njit(cache=False)
    def drive_tree(a1, a2, inst64, W, H, xbuf, y, bs, be, grid, res, bad14,
                   bad01, lb):
        """
        Depth-first over all signed permutations with repetition.

        a1/a2: the arguments the public decode() of encoding 1/2 hands to
        its compiled kernel after (x, y) - see kernel_args; bs/be: the
        scratch arrays among them that are poisoned before every call;
        y/bs/be/xbuf: arrays in the instance's real dtypes.
        res: 0 nodes, 1 leaves, 2 model mismatches, 3 infeasible nodes,
        4 min bins enc1, 5 min bins enc2, 6 max bins, 7 code of first
        infeasible, 8 enc of first mismatch, 9 enc of first infeasible,
        10 leaves below lower bound, 11 len of bad14, 12 len of bad01,
        13 multi-bin leaves
        """
        nt = inst64.shape[0]
        n = y.shape[0]
        rects = np.zeros((n, 6), np.int64)
        out = np.zeros(2, np.int64)
        remaining = np.zeros(nt, np.int64)
        nbs = np.zeros(n + 1, np.int64)
        choice = np.zeros(n + 1, np.int64)
        res[4] = n + 1
        res[5] = n + 1
        for enc in (1, 2):
            for t in range(nt):
                remaining[t] = inst64[t, 2]
            depth = 0
            nbs[0] = 1
            choice[0] = 0
            while depth >= 0:
                c = choice[depth]
                if depth >= n or c >= 2 * nt:
                    # backtrack
                    depth -= 1
                    if depth >= 0:
                        it = xbuf[depth]
                        t = (it if it > 0 else -it) - 1
                        remaining[t] += 1
                    continue
                choice[depth] = c + 1
                t = c // 2
                if remaining[t] <= 0:
                    continue
                item = (t + 1) if (c % 2 == 0) else -(t + 1)
                remaining[t] -= 1
                xbuf[depth] = item
                k = depth
                nb = place(rects, k, nbs[k], item, inst64, W, H, enc, out)
                nbs[k + 1] = nb
                # the real decoder on the prefix, dirty destination
                pz = -1 if (res[0] % 2 == 0) else 101
                for i in range(n):
                    for j in range(6):
                        y[i, j] = pz
                    bs[i] = n - 1
                    be[i] = n - 1
                if enc == 1:
                    nbr = call1(xbuf[:k + 1], y, a1)
                else:
                    nbr = call2(xbuf[:k + 1], y, a2)
                res[0] += 1
                same = nbr == nb
                if same:
                    for i in range(k + 1):
                        for j in range(6):
                            if y[i, j] != rects[i, j]:
                                same = False
                if not same:
                    if res[2] == 0:
                        res[8] = enc
                        res[11] = k + 1
                        for i in range(k + 1):
                            bad14[i] = xbuf[i]
                    res[2] += 1
                full = (k + 1) == n
                code = paint(y, k + 1, inst64, W, H, nbr, grid, full)
                if code != 0:
                    if res[3] == 0:
                        res[7] = code
                        res[9] = enc
                        res[12] = k + 1
                        for i in range(k + 1):
                            bad01[i] = xbuf[i]
                    res[3] += 1
                if full:
                    res[1] += 1
                    if enc == 1:
                        if nbr < res[4]:
                            res[4] = nbr
                    elif nbr < res[5]:
                        res[5] = nbr
                    if nbr > res[6]:
                        res[6] = nbr
                    if nbr > 1:
                        res[13] += 1
                    if nbr < lb:
                        res[10] += 1
                depth += 1
                choice[depth] = 0
    _DRV.update(drive_tree=drive_tree, place=place, paint=paint,
                try_bin=try_bin, dec1=dec1, dec2=dec2, call1=call1,
                call2=call2)
    return _DRV


_KNAMES = {}


def kernel_args(enc_id, inst, wrap=None):
    """
    What the public decode() of an encoding passes to its compiled kernel.

    The module-level kernel ``_decode`` is replaced by a recorder for one
    public ``decode(x, y)`` call; returned are the arguments after (x, y) -
    the instance, the bin size and the encoder's scratch arrays, whatever
    their number - and the two scratch arrays named bin_starts / bin_ends
    (dummies if the kernel has none).  The exploration thereby calls the
    kernel exactly as the public API does, also after a refactoring that
    changes the kernel's private signature.  wrap(array) may substitute
    every scratch array (e.g. by a view into a guard-padded buffer).
    """
    import importlib
    import inspect

    from moptipyapps.binpacking2d.packing import Packing
    mod = importlib.import_module(
        f"moptipyapps.binpacking2d.encodings.ibl_encoding_{enc_id}")
    enc = getattr(mod, f"ImprovedBottomLeftEncoding{enc_id}")(inst)
    orig = mod._decode
    rec = []

    def spy(*a, **kw):
        rec.append((a, kw))
        return 1
    x = np.array(inst.get_standard_item_sequence(), inst.dtype)
    y = Packing(inst)
    mod._decode = spy
    try:
        enc.decode(x, y)
    finally:
        mod._decode = orig
    arr = np.asarray(inst)
    n = inst.n_items
    if len(rec) == 1 and not rec[0][1] and len(rec[0][0]) >= 2 \
            and rec[0][0][0] is x and rec[0][0][1] is y:
        args = [np.asarray(v) if isinstance(v, np.ndarray) else v
                for v in rec[0][0][2:]]
    else:   # decode() does not go through the module-level name
        args = [arr, inst.bin_width, inst.bin_height]
        if enc_id == 2:
            args += [np.zeros(n, arr.dtype), np.zeros(n, arr.dtype)]
    if wrap is not None:
        args = [wrap(v) if k > 0 and isinstance(v, np.ndarray) else v
                for k, v in enumerate(args)]
    if enc_id not in _KNAMES:
        try:
            _KNAMES[enc_id] = list(inspect.signature(
                getattr(orig, "py_func", orig)).parameters)[2:]
        except (TypeError, ValueError):
            _KNAMES[enc_id] = []
    names = _KNAMES[enc_id]
    scratch = []
    for nm in ("bin_starts", "bin_ends"):
        a = args[names.index(nm)] if nm in names and names.index(nm) < len(
            args) else None
        if not (isinstance(a, np.ndarray) and a.shape == (n,)):
            a = np.zeros(n, arr.dtype)
        scratch.append(a)
    return tuple(args), scratch[0], scratch[1]


def make_instance(W, H, rows, name="v"):
    from moptipyapps.binpacking2d.instance import Instance
    return Instance(name, W, H, [list(map(int, r)) for r in rows])


def run_tree(W, H, rows):
    """Run the complete signed-permutation tree of one instance."""
    d = drivers()
    inst = make_instance(W, H, rows)
    arr = np.asarray(inst)
    n = inst.n_items
    y = np.empty((n, 6), arr.dtype)
    a1, _, _ = kernel_args(1, inst)
    a2, bs, be = kernel_args(2, inst)
    xbuf = np.zeros(n, arr.dtype)
    grid = np.zeros((n, W, H), np.int8)
    res = np.zeros(16, np.int64)
    bad14 = np.zeros(n, np.int64)
    bad01 = np.zeros(n, np.int64)
    d["drive_tree"](a1, a2, arr.astype(np.int64), W, H, xbuf, y, bs, be,
                    grid, res, bad14, bad01, int(inst.lower_bound_bins))
    return inst, res, bad14[:res[11]], bad01[:res[12]]


def public_decode(inst, enc_id, x, poison=None, encoder=None, dest=None):
    """Decode through the public Encoding.decode; returns (rows, n_bins)."""
    from moptipy.spaces.signed_permutations import SignedPermutations
    from moptipyapps.binpacking2d.encodings.ibl_encoding_1 import (
        ImprovedBottomLeftEncoding1,
    )
    from moptipyapps.binpacking2d.encodings.ibl_encoding_2 import (
        ImprovedBottomLeftEncoding2,
    )
    from moptipyapps.binpacking2d.packing import Packing
    if encoder is None:
        encoder = (ImprovedBottomLeftEncoding1 if enc_id == 1
                   else ImprovedBottomLeftEncoding2)(inst)
    if dest is None:
        dest = Packing(inst)
        if poison is not None:
            dest.fill(poison)
    xx = _XCACHE.get(id(inst))
    if xx is None or len(_XCACHE) > 64:
        _XCACHE.clear()
        try:
            xx = SignedPermutations(
                inst.get_standard_item_sequence()).create()
        except ValueError:  # a single item: the space refuses to exist
            xx = np.zeros(inst.n_items, inst.dtype)
        _XCACHE[id(inst)] = xx
        _XCACHE[("keep", id(inst))] = inst
    xx[:] = x
    encoder.decode(xx, dest)
    return np.array(dest, dtype=np.int64), int(dest.n_bins), dest


def signed_perms(rows):
    """All signed permutations with repetition (python lists)."""
    seq = []
    for i, r in enumerate(rows):
        seq += [i + 1] * r[2]
    seen = set()
    for p in itertools.permutations(seq):
        if p in seen:
            continue
        seen.add(p)
        for signs in itertools.product((1, -1), repeat=len(p)):
            yield [a * s for a, s in zip(p, signs)]


def tree_job(a):
    """Worker: all instances of (W, H, kmin..kmax), shard i of m."""
    W, H, kmin, kmax, shard, nshards = a
    drivers()
    agg = np.zeros(16, np.int64)
    agg[4] = agg[5] = 10 ** 9
    bad14 = None
    bad01 = None
    badlb = None
    ninst = 0
    multi = 0
    for idx, rows in enumerate(enum_instances(W, H, kmax, kmin)):
        if idx % nshards != shard:
            continue
        inst, res, b14, b01 = run_tree(W, H, rows)
        ninst += 1
        agg[0] += res[0]
        agg[1] += res[1]
        agg[2] += res[2]
        agg[3] += res[3]
        agg[10] += res[10]
        agg[13] += res[13]
        if res[6] > 1:
            multi += 1
        if res[2] and bad14 is None:
            bad14 = (W, H, rows, [int(v) for v in b14], int(res[8]))
        if res[3] and bad01 is None:
            bad01 = (W, H, rows, [int(v) for v in b01], int(res[9]),
                     int(res[7]))
        if res[10] and badlb is None:
            badlb = (W, H, rows, int(inst.lower_bound_bins),
                     int(min(res[4], res[5])))
    return ninst, agg, bad14, bad01, badlb, multi


def explore_trees(ctx, specs):
    """specs: list of (W, H, kmin, kmax). Returns aggregated results."""
    from mc.core import pmap
    drivers()
    jobs = []
    for (W, H, kmin, kmax) in specs:
        ns = 1
        est = len(item_types(W, H)) ** kmax
        if est > 20000:
            ns = min(ctx.jobs * 2, 64)
        jobs += [(W, H, kmin, kmax, s, ns) for s in range(ns)]
    # big jobs first
    jobs.sort(key=lambda j: -(len(item_types(j[0], j[1])) ** j[3]))
    out = pmap(tree_job, jobs, ctx.jobs)
    tot = np.zeros(16, np.int64)
    ninst = 0
    multi = 0
    b14 = b01 = blb = None
    for (ni, agg, x14, x01, xlb, mu) in out:
        ninst += ni
        multi += mu
        tot += agg
        # keep the smallest counterexample
        if x14 is not None and (b14 is None or _size(x14) < _size(b14)):
            b14 = x14
        if x01 is not None and (b01 is None or _size(x01) < _size(b01)):
            b01 = x01
        if xlb is not None and (blb is None or _size(xlb) < _size(blb)):
            blb = xlb
    return {"instances": ninst, "nodes": int(tot[0]), "leaves": int(tot[1]),
            "mismatches": int(tot[2]), "infeasible": int(tot[3]),
            "below_lb": int(tot[10]), "multi_bin_leaves": int(tot[13]),
            "multi_bin_instances": multi,
            "bad14": b14, "bad01": b01, "badlb": blb}


def _size(b):
    W, H, rows = b[0], b[1], b[2]
    return (sum(r[2] for r in rows), W * H, len(b[3]) if len(b) > 3
            and isinstance(b[3], list) else 0)


OBJ_NAMES = ["binCount", "binCountAndLastEmpty", "binCountAndEmpty",
             "binCountAndLastSmall", "binCountAndSmall",
             "binCountAndLastSkyline", "binCountAndLowestSkyline"]
_GEN = {}


def gen_drivers():
    """The explicit-state packing generator + objective comparison."""
    if _GEN:
        return _GEN
    import numba
    from mc.jit import compile_module
    from moptipyapps.binpacking2d.objectives.bin_count_and_empty import (
        bin_count_and_empty,
    )
    from moptipyapps.binpacking2d.objectives.bin_count_and_last_empty import (
        bin_count_and_last_empty,
    )
    from moptipyapps.binpacking2d.objectives.bin_count_and_last_skyline \
        import bin_count_and_last_skyline
    from moptipyapps.binpacking2d.objectives.bin_count_and_last_small import (
        bin_count_and_last_small,
    )
    from moptipyapps.binpacking2d.objectives.bin_count_and_lowest_skyline \
        import bin_count_and_lowest_skyline
    from moptipyapps.binpacking2d.objectives.bin_count_and_small import (
        bin_count_and_small,
    )
    ns = compile_module(P, ["objective_models"])
    omodel = ns["objective_models"]

    @numba.njit(cache=False)
    def eval_real(y, W, H, tmp_e, tmp_s, got):
        got[0] = y[:, 1].max()
        got[1] = bin_count_and_last_empty(y)
        got[2] = bin_count_and_empty(y, tmp_e)
        got[3] = bin_count_and_last_small(y, W * H)
        got[4] = bin_count_and_small(y, W * H, tmp_s)
        got[5] = bin_count_and_last_skyline(y, W, H)
        got[6] = bin_count_and_lowest_skyline(y, W, H)

    @numba.njit(cache=False)
    def gen_packings(inst64, W, H, seq, y, y2, tmp_e, tmp_s, mins, maxs,
                     res, store, bad):
        """
        Enumerate every feasible packing of the instance.

        seq: item type (0-based) per row; y/y2: arrays in the real dtype.
        res: 0 leaves, 1 evaluations, 2 mismatches, 3 stored, 4 row-order
        disagreements, 5 first bad objective, 6 got, 7 expected,
        8 raw nodes
        mins/maxs: (7, n + 1) per objective and bin count.
        """
        n = seq.shape[0]
        WH = W * H
        nch = 2 * n * WH
        choice = np.zeros(n + 1, np.int64)
        grid = np.zeros((n, W, H), np.int8)
        cnt = np.zeros(n, np.int64)
        area = np.zeros(n, np.int64)
        sky = np.zeros(n, np.int64)
        exp = np.zeros(7, np.int64)
        got = np.zeros(7, np.int64)
        got2 = np.zeros(7, np.int64)
        used = np.zeros(n + 2, np.int64)
        for o in range(7):
            for kk in range(n + 1):
                mins[o, kk] = -1
                maxs[o, kk] = -1
        depth = 0
        choice[0] = 0
        while depth >= 0:
            if depth == n:
                # a complete placement: bins contiguous?
                for b in range(n + 2):
                    used[b] = 0
                k = 0
                for i in range(n):
                    used[y[i, 1]] = 1
                    if y[i, 1] > k:
                        k = y[i, 1]
                okb = True
                for b in range(1, k + 1):
                    if used[b] == 0:
                        okb = False
                if okb:
                    res[0] += 1
                    omodel(y, n, k, W, H, grid, cnt, area, sky, exp)
                    tmp_e.fill(111)
                    tmp_s.fill(-7)
                    eval_real(y, W, H, tmp_e, tmp_s, got)
                    res[1] += 7
                    for o in range(7):
                        if got[o] != exp[o]:
                            if res[2] == 0:
                                res[5] = o
                                res[6] = got[o]
                                res[7] = exp[o]
                                for i in range(n):
                                    for j in range(6):
                                        bad[i, j] = y[i, j]
                            res[2] += 1
                        v = got[o]
                        if mins[o, k] < 0 or v < mins[o, k]:
                            mins[o, k] = v
                        if maxs[o, k] < 0 or v > maxs[o, k]:
                            maxs[o, k] = v
                    # other row orders: all rotations and the reversal
                    for r in range(1, n + 1):
                        for i in range(n):
                            src = (i + r) % n if r < n else n - 1 - i
                            for j in range(6):
                                y2[i, j] = y[src, j]
                        eval_real(y2, W, H, tmp_e, tmp_s, got2)
                        res[1] += 7
                        for o in range(7):
                            if got2[o] != exp[o]:
                                if res[4] == 0 and res[2] == 0:
                                    res[5] = o
                                    res[6] = got2[o]
                                    res[7] = exp[o]
                                    for i in range(n):
                                        for j in range(6):
                                            bad[i, j] = y2[i, j]
                                res[4] += 1
                    if res[3] < store.shape[0]:
                        for i in range(n):
                            for j in range(6):
                                store[res[3], i, j] = y[i, j]
                        res[3] += 1
                    else:
                        res[9] = 1
                depth -= 1
                continue
            c = choice[depth]
            if c >= nch:
                depth -= 1
                continue
            choice[depth] = c + 1
            res[8] += 1
            t = seq[depth]
            orient = c // (n * WH)
            b = (c // WH) % n + 1
            x0 = (c // H) % W
            y0 = c % H
            w = inst64[t, 0]
            h = inst64[t, 1]
            if orient == 1:
                if w == h:
                    continue
                w, h = h, w
            if x0 + w > W or y0 + h > H:
                continue
            # identical items: canonical order of choices
            if depth > 0 and seq[depth - 1] == t \
                    and c <= choice[depth - 1] - 1:
                continue
            if b > depth + 1:
                continue  # bin ids cannot exceed the number of items so far
            ok = True
            for i in range(depth):
                if y[i, 1] == b and y[i, 2] < x0 + w and x0 < y[i, 4] \
                        and y[i, 3] < y0 + h and y0 < y[i, 5]:
                    ok = False
                    break
            if not ok:
                continue
            y[depth, 0] = t + 1
            y[depth, 1] = b
            y[depth, 2] = x0
            y[depth, 3] = y0
            y[depth, 4] = x0 + w
            y[depth, 5] = y0 + h
            depth += 1
            choice[depth] = 0
    _GEN.update(gen_packings=gen_packings, eval_real=eval_real)
    return _GEN


def all_packings(W, H, rows, cap=200000):
    """Enumerate all feasible packings; compare objectives on each."""
    g = gen_drivers()
    inst = make_instance(W, H, rows)
    arr = np.asarray(inst)
    n = inst.n_items
    seq = np.array([v - 1 for v in inst.get_standard_item_sequence()],
                   np.int64)
    y = np.zeros((n, 6), arr.dtype)
    y2 = np.zeros((n, 6), arr.dtype)
    tmp_e = np.zeros(n, arr.dtype)
    tmp_s = np.zeros(n, np.int64)
    mins = np.zeros((7, n + 1), np.int64)
    maxs = np.zeros((7, n + 1), np.int64)
    res = np.zeros(16, np.int64)
    store = np.zeros((cap, n, 6), arr.dtype)
    bad = np.zeros((n, 6), np.int64)
    g["gen_packings"](arr.astype(np.int64), W, H, seq, y, y2, tmp_e, tmp_s,
                      mins, maxs, res, store, bad)
    return inst, res, mins, maxs, store[:res[3]], bad


_TOBJ = {}


def tree_objective_driver():
    """All decoder outputs of an instance through the objective kernels."""
    if _TOBJ:
        return _TOBJ
    import numba
    d = drivers()
    g = gen_drivers()
    call1 = d["call1"]
    call2 = d["call2"]
    eval_real = g["eval_real"]
    from mc.jit import compile_module
    omodel = compile_module(P, ["objective_models"])["objective_models"]

    @numba.njit(cache=False)
    def tree_objectives(a1, a2, inst64, W, H, xbuf, y, tmp_e, tmp_s,
                        mins, maxs, res, bad):
        nt = inst64.shape[0]
        n = y.shape[0]
        remaining = np.zeros(nt, np.int64)
        choice = np.zeros(n + 1, np.int64)
        grid = np.zeros((n, W, H), np.int8)
        cnt = np.zeros(n, np.int64)
        area = np.zeros(n, np.int64)
        sky = np.zeros(n, np.int64)
        exp = np.zeros(7, np.int64)
        got = np.zeros(7, np.int64)
        for o in range(7):
            for kk in range(n + 1):
                mins[o, kk] = -1
                maxs[o, kk] = -1
        for t in range(nt):
            remaining[t] = inst64[t, 2]
        depth = 0
        choice[0] = 0
        while depth >= 0:
            if depth == n:
                for enc in (1, 2):
                    if enc == 1:
                        k = call1(xbuf, y, a1)
                    else:
                        k = call2(xbuf, y, a2)
                    res[0] += 1
                    omodel(y, n, k, W, H, grid, cnt, area, sky, exp)
                    tmp_e.fill(111)
                    tmp_s.fill(-7)
                    eval_real(y, W, H, tmp_e, tmp_s, got)
                    res[1] += 7
                    for o in range(7):
                        if got[o] != exp[o]:
                            if res[2] == 0:
                                res[5] = o
                                res[6] = got[o]
                                res[7] = exp[o]
                                for i in range(n):
                                    for j in range(6):
                                        bad[i, j] = y[i, j]
                            res[2] += 1
                        v = got[o]
                        if mins[o, k] < 0 or v < mins[o, k]:
                            mins[o, k] = v
                        if maxs[o, k] < 0 or v > maxs[o, k]:
                            maxs[o, k] = v
                depth -= 1
                it = xbuf[depth]
                remaining[(it if it > 0 else -it) - 1] += 1
                continue
            c = choice[depth]
            if c >= 2 * nt:
                depth -= 1
                if depth >= 0:
                    it = xbuf[depth]
                    remaining[(it if it > 0 else -it) - 1] += 1
                continue
            choice[depth] = c + 1
            t = c // 2
            if remaining[t] <= 0:
                continue
            remaining[t] -= 1
            xbuf[depth] = (t + 1) if (c % 2 == 0) else -(t + 1)
            depth += 1
            choice[depth] = 0
    _TOBJ["tree_objectives"] = tree_objectives
    return _TOBJ


def decoder_packings(W, H, rows):
    """Objective values over all decoder outputs (both encodings)."""
    t = tree_objective_driver()
    inst = make_instance(W, H, rows)
    arr = np.asarray(inst)
    n = inst.n_items
    y = np.zeros((n, 6), arr.dtype)
    mins = np.zeros((7, n + 1), np.int64)
    maxs = np.zeros((7, n + 1), np.int64)
    res = np.zeros(16, np.int64)
    bad = np.zeros((n, 6), np.int64)
    t["tree_objectives"](kernel_args(1, inst)[0], kernel_args(2, inst)[0],
                         arr.astype(np.int64), W, H,
                         np.zeros(n, arr.dtype), y, np.zeros(n, arr.dtype),
                         np.zeros(n, np.int64), mins, maxs, res, bad)
    return inst, res, mins, maxs, None, bad
