"""Shared drivers for the TTP properties C07 / C08 (and C13 re-runs)."""
import numpy as np

from models import ttp as M

_DRV = {}


def drivers():
    """Compile (once per process) the numba drivers around the real kernels."""
    if _DRV:
        return _DRV
    import numba
    from moptipyapps.ttp.errors import count_errors
    from moptipyapps.ttp.plan_length import game_plan_length

    feas = numba.njit(cache=False)(M.feasible)
    cnt = numba.njit(cache=False)(M.rule_count)
    cons = numba.njit(cache=False)(M.consistent)
    plen = numba.njit(cache=False)(M.plan_length)

    @numba.njit(cache=False)
    def decode_plan(idx, cfg, y):
        k = cfg.shape[0]
        days = y.shape[0]
        for d in range(days - 1, -1, -1):
            y[d, :] = cfg[idx % k]
            idx //= k

    @numba.njit(cache=False)
    def record(badrec, slot, kind, idx, s, cell, val, got, exp):
        if badrec[slot, 0] < 0:
            badrec[slot, 0] = idx
            badrec[slot, 1] = kind
            badrec[slot, 2] = s
            badrec[slot, 3] = cell
            badrec[slot, 4] = val
            badrec[slot, 5] = got
            badrec[slot, 6] = exp

    @numba.njit(cache=False)
    def check(y, is_cons, got, fe, ubs, rounds, a, b, c, dd, e, f, badrec,
              idx, s, cell, val):
        ub = ubs[s]
        if (got == 0) != fe:
            record(badrec, 2, 2, idx, s, cell, val, got, 0 if fe else 1)
        if got < 0 or got > ub:
            record(badrec, 4 if (e >= 3 or a >= 3 or c >= 3) else 3, 3, idx,
                   s, cell, val, got, ub)
        if is_cons:
            exp = cnt(y, rounds, a, b, c, dd, e, f)
            if exp != got:
                record(badrec, 1, 1, idx, s, cell, val, got, exp)

    @numba.njit(cache=False)
    def drive_errors(cfg, days, start, stop, settings, rounds, ubs,
                     corrupt, hist, res, pad, badrec):
        """
        Run count_errors on all plans [start, stop) x all settings.

        res: 0 evaluations, 1 feasible plans (plan x setting), 2 bad plan
        index (-1 none), 3 bad kind, 4 bad setting, 5 bad cell, 6 bad value,
        7 observed, 8 expected, 9 plans with errors == 0, 10 guard damage
        kinds: 1 value != rule count, 2 zero <=> feasible broken, 3 bounds
        """
        n = cfg.shape[1]
        y = np.zeros((days, n), np.int8)
        np1 = n * (n - 1) // 2
        buf1 = np.full(np1 + 2 * pad, -77, np.int64)
        t1 = buf1[pad:pad + np1]
        buf2 = np.full((n + 2 * pad, n), -77, np.int64)
        t2 = buf2[pad:pad + n, :]
        badrec[:, 0] = -1
        for idx in range(start, stop):
            decode_plan(idx, cfg, y)
            is_cons = cons(y)
            for s in range(settings.shape[0]):
                a = settings[s, 0]
                b = settings[s, 1]
                c = settings[s, 2]
                dd = settings[s, 3]
                e = settings[s, 4]
                f = settings[s, 5]
                got = count_errors(y, a, b, c, dd, e, f, t1, t2)
                res[0] += 1
                if 0 <= got < hist.shape[0]:
                    hist[got] += 1
                fe = feas(y, rounds, a, b, c, dd, e, f)
                if fe:
                    res[1] += 1
                if got == 0:
                    res[9] += 1
                check(y, is_cons, got, fe, ubs, rounds, a, b, c, dd, e, f,
                      badrec, idx, s, -1, 0)
                if corrupt != 0:
                    for cell in range(days * n):
                        d0 = cell // n
                        c0 = cell % n
                        orig = y[d0, c0]
                        for val in range(-n, n + 1):
                            if val == orig:
                                continue
                            y[d0, c0] = val
                            got = count_errors(y, a, b, c, dd, e, f, t1, t2)
                            res[0] += 1
                            if 0 <= got < hist.shape[0]:
                                hist[got] += 1
                            fe = feas(y, rounds, a, b, c, dd, e, f)
                            check(y, cons(y), got, fe, ubs, rounds, a, b, c,
                                  dd, e, f, badrec, idx, s, cell, val)
                        y[d0, c0] = orig
        dmg = 0
        for i in range(pad):
            if buf1[i] != -77 or buf1[pad + np1 + i] != -77:
                dmg += 1
            for j in range(n):
                if buf2[i, j] != -77 or buf2[pad + n + i, j] != -77:
                    dmg += 1
        res[10] = dmg

    @numba.njit(cache=False)
    def drive_length(cfg, days, start, stop, dist, penalty, ub, rounds,
                     settings, res, byes):
        """
        Run game_plan_length on all plans [start, stop).

        res: 0 evaluations, 1 bad idx (-1), 2 kind, 3 cell, 4 observed,
        5 expected, 6 feasible plans, 7 min length over plans that are
        feasible by the model (per `settings` row 0), 8 bye replacements checked
        kinds: 1 value != model, 2 bounds, 3 bye does not increase
        """
        n = cfg.shape[1]
        y = np.zeros((days, n), np.int8)
        res[1] = -1
        res[7] = -1
        for idx in range(start, stop):
            decode_plan(idx, cfg, y)
            got = game_plan_length(y, dist, penalty)
            res[0] += 1
            exp = plen(y, dist, penalty)
            bad = 0
            if got != exp:
                bad = 1
            elif got < 0 or got > ub:
                bad = 2
                exp = ub
            if bad != 0 and res[1] < 0:
                res[1] = idx
                res[2] = bad
                res[3] = -1
                res[4] = got
                res[5] = exp
            if settings.shape[0] > 0:
                if feas(y, rounds, settings[0, 0], settings[0, 1],
                        settings[0, 2], settings[0, 3], settings[0, 4],
                        settings[0, 5]):
                    res[6] += 1
                    if res[7] < 0 or got < res[7]:
                        res[7] = got
            if not byes:
                continue
            for cell in range(days * n):
                d0 = cell // n
                c0 = cell % n
                orig = y[d0, c0]
                if orig == 0:
                    continue
                y[d0, c0] = 0
                g2 = game_plan_length(y, dist, penalty)
                e2 = plen(y, dist, penalty)
                y[d0, c0] = orig
                res[0] += 1
                res[8] += 1
                bad = 0
                if g2 != e2:
                    bad = 1
                elif g2 <= got:
                    bad = 3
                    e2 = got
                elif g2 > ub:
                    bad = 2
                    e2 = ub
                if bad != 0 and res[1] < 0:
                    res[1] = idx
                    res[2] = bad
                    res[3] = cell
                    res[4] = g2
                    res[5] = e2
    _DRV.update(decode_plan=decode_plan, drive_errors=drive_errors,
                drive_length=drive_length, count_errors=count_errors,
                game_plan_length=game_plan_length)
    return _DRV


def plan_from_index(idx, cfg, days):
    k = cfg.shape[0]
    rows = []
    for _ in range(days):
        rows.append(cfg[idx % k])
        idx //= k
    return np.array(rows[::-1], dtype=np.int64)


def make_instance(n, rounds, setting, matrix=None, name=None):
    """Build a real TTP instance with the given constraint setting."""
    from moptipyapps.ttp.instance import Instance
    if matrix is None:
        matrix = np.array([[0 if i == j else 1 + abs(i - j)
                            for j in range(n)] for i in range(n)])
    return Instance(name or f"v{n}r{rounds}", matrix,
                    [f"T{i + 1}" for i in range(n)], rounds,
                    *[int(s) for s in setting])


def to_game_plan(inst, arr):
    from moptipyapps.ttp.game_plan import GamePlan
    gp = GamePlan(inst)
    gp[:, :] = arr
    return gp
