"""
C12: bundled experiment runs are replicable and log true results.

Finite product, fully enumerated, every member executed TWICE:

    setups x instances x seeds {1, 2^63, seed derived from the instance name
    with moptipy's rand_seeds_from_str} x FE budgets {1, 2, 17}

over the setup functions that the repository ships: the bin packing
experiment (rls / fea x seven objectives x two encodings), the two TSP
algorithms the repository implements itself, the TTP and QAP example
experiments (setup functions imported from ``examples/``), the instance
generation experiment (inner budgets patched down) and the controller
synthesis experiments (systems rebuilt with few steps / training cases).

Per member: the run returns (decided by a *step* horizon on the polls of
``should_terminate()``, never by wall clock), consumes at most its budget,
the final solution passes an independent feasibility test, the reported and
the logged best objective value equal a re-evaluation with a fresh objective
object and with the reference model, the logged solution is the reported
one, and the second execution reproduces best f, best x / y, the FE of the
last improvement and the consumed FEs. Bin packing logs are parsed back
(``Packing.from_log``, ``packing_result.from_single_log`` / ``from_logs`` on
the directory layout of moptipy's ``run_experiment``) and must give the same
packing, the values of all seven objectives according to the model, and the
bounds of fresh objective objects / of the instance.
"""
import os

for _k in ("OMP_NUM_THREADS", "OPENBLAS_NUM_THREADS", "MKL_NUM_THREADS"):
    os.environ.setdefault(_k, "1")

import importlib.util  # noqa: E402
import shutil  # noqa: E402
import sys  # noqa: E402

import numpy as np  # noqa: E402

from mc.core import Ctx, HarnessError, repo_root  # noqa: E402
from models import experiments as X  # noqa: E402
from models import ode as MODE  # noqa: E402
from models import packing as P  # noqa: E402
from models import qap as MQAP  # noqa: E402
from models import tsp as MTSP  # noqa: E402
from models import ttp as MTTP  # noqa: E402

#: names of the seven objectives in the order of models.packing's output
OBJ_NAMES = ["binCount", "binCountAndLastEmpty", "binCountAndEmpty",
             "binCountAndLastSmall", "binCountAndSmall",
             "binCountAndLastSkyline", "binCountAndLowestSkyline"]

#: inner budgets of the instance generation experiment (patched down)
INNER_FES = 8
INNER_RUNS = 2

_C = {}        # per-process caches


# ---------------------------------------------------------------- step guard
class NoProgress(Exception):
    """The algorithm polled should_terminate() too often without an FE."""


def guard_class():
    """An Algorithm wrapper that turns a stuck solve() into an exception."""
    if "guard" in _C:
        return _C["guard"]
    from moptipy.api.algorithm import Algorithm

    class Guarded(Algorithm):
        """Forward everything; count polls of should_terminate()."""

        def __init__(self, inner, horizon):
            super().__init__()
            self.inner = inner
            self.horizon = horizon

        def __str__(self):
            return str(self.inner)

        def initialize(self):
            self.inner.initialize()

        def log_parameters_to(self, logger):
            self.inner.log_parameters_to(logger)

        def solve(self, process):
            orig = process.should_terminate
            fes = process.get_consumed_fes
            horizon = self.horizon
            state = [0, -1]

            def polled():
                res = orig()
                if not res:
                    f = fes()
                    if f != state[1]:
                        state[1] = f
                        state[0] = 0
                    else:
                        state[0] += 1
                        if state[0] > horizon:
                            raise NoProgress(
                                f"{horizon} consecutive polls of "
                                "should_terminate() returned False without "
                                f"a new FE (stuck at FE {f})")
                return res
            process.should_terminate = polled
            self.inner.solve(process)

    _C["guard"] = Guarded
    return Guarded


def name_seed(inst_name):
    """The seed run_experiment would use first for this instance name."""
    from moptipy.utils.nputils import rand_seeds_from_str
    from moptipy.utils.strings import sanitize_name
    return int(rand_seeds_from_str(sanitize_name(str(inst_name)), 1)[0])


def seeds_for(inst_name):
    return [X.FIXED_SEEDS[0], X.FIXED_SEEDS[1], name_seed(inst_name)]


def log_path(root, algo, inst, seed):
    """The file run_experiment would write below `root`."""
    from moptipy.utils.strings import sanitize_name, sanitize_names
    a = sanitize_name(str(algo))
    i = sanitize_name(str(inst))
    return os.path.join(root, a, i,
                        sanitize_names([a, i, hex(seed)]) + ".txt")


def execute(ex, seed, budget, log_file):
    """
    Run a configured Execution once under the step guard.

    Returns the observable outcome as a dict of plain values (+ the solution
    objects under "_x" / "_y").
    """
    from pycommons.io.path import Path
    ex.set_algorithm(guard_class()(ex._algorithm, X.STEP_HORIZON))
    ex.set_max_fes(budget, True)
    ex.set_rand_seed(seed)
    if log_file is None:
        ex.set_log_improvements(False)
        ex.set_log_all_fes(False)
        ex.set_log_file(None)
    else:
        os.makedirs(os.path.dirname(log_file), exist_ok=True)
        ex.set_log_file(Path(log_file))
    sol = ex._solution_space
    sea = ex._search_space
    out = {"status": "ok", "err": None, "f": None, "fes": None, "li": None,
           "xkey": None, "ykey": None, "fs": None, "archive": None,
           "algo": str(ex._algorithm), "log": log_file,
           "objective": str(ex._objective)}
    try:
        with ex.execute() as p:
            out["fes"] = int(p.get_consumed_fes())
            if p.has_best():
                f = p.get_best_f()
                out["f"] = f if isinstance(f, (int, float)) else (
                    int(f) if isinstance(f, np.integer) else float(f))
                out["li"] = int(p.get_last_improvement_fe())
                y = sol.create()
                p.get_copy_of_best_y(y)
                out["_y"] = y
                out["ykey"] = sol.to_str(y)
                x = (sea if sea is not None else sol).create()
                p.get_copy_of_best_x(x)
                out["_x"] = x
                out["xkey"] = (sea if sea is not None else sol).to_str(x)
                if hasattr(p, "get_archive"):
                    fs = p.f_create()
                    p.get_copy_of_best_fs(fs)
                    out["fs"] = [int(v) for v in fs]
                    xs = sea if sea is not None else sol
                    out["_archive"] = [(xs.create(), [int(v) for v in r.fs])
                                       for r in p.get_archive()]
                    for (cp, _), r in zip(out["_archive"], p.get_archive()):
                        xs.copy(cp, r.x)
                    out["archive"] = sorted(
                        (xs.to_str(cp), fs2) for cp, fs2 in out["_archive"])
    except NoProgress as e:
        out["status"] = "stuck"
        out["err"] = str(e)
    except Exception as e:  # noqa
        out["status"] = "raised"
        out["err"] = f"{type(e).__name__}: {e}"[:400]
    return out


def quiet():
    """Swallow the console chatter of the log parsers."""
    import contextlib
    import io
    return contextlib.redirect_stdout(io.StringIO())


REPL_KEYS = ("status", "f", "fes", "li", "xkey", "ykey", "fs", "archive")


def outcome_key(o):
    return tuple(repr(o[k]) for k in REPL_KEYS)


def common_checks(o, budget, probs):
    """Termination within the budget; returns False if nothing to look at."""
    if o["status"] == "stuck":
        probs.append(("no-progress", o["err"]))
        return False
    if o["status"] == "raised":
        probs.append(("run-raised", o["err"]))
        return False
    if o["f"] is None:
        probs.append(("no-result", "the finished run has no best solution"))
        return False
    if not 1 <= o["fes"] <= budget:
        probs.append(("budget", f"consumed {o['fes']} FEs with a budget of "
                      f"{budget}"))
    if not 1 <= o["li"] <= o["fes"]:
        probs.append(("last-improvement", f"last improvement at FE "
                      f"{o['li']} of {o['fes']}"))
    return True


def replication(o1, o2, probs):
    if outcome_key(o1) != outcome_key(o2):
        diff = [k for k in REPL_KEYS if repr(o1[k]) != repr(o2[k])]
        probs.append(("not-replicable", "second run with the same seed "
                      f"differs in {diff}: "
                      + "; ".join(f"{k}: {str(o1[k])[:80]} vs "
                                  f"{str(o2[k])[:80]}" for k in diff[:3])))


def read_log(path):
    """Sections of a moptipy log file: name -> list of lines."""
    sec = {}
    cur = None
    with open(path, encoding="utf-8") as f:
        for line in f:
            line = line.rstrip("\n")
            if line.startswith("BEGIN_"):
                cur = line[6:]
                sec[cur] = []
            elif line.startswith("END_"):
                cur = None
            elif cur is not None:
                sec[cur].append(line)
    return sec


def kv(lines):
    d = {}
    for ln in lines:
        k, _, v = ln.partition(": ")
        d[k] = v
    return d


def num(s):
    try:
        return int(s)
    except ValueError:
        return float(s)


def logged_state_checks(o, budget, seed, probs, names=None):
    """STATE / SETUP sections of the log against the process' answers."""
    try:
        sec = read_log(o["log"])
        st = kv(sec["STATE"])
        su = kv(sec["SETUP"])
    except Exception as e:  # noqa
        probs.append(("log-unreadable", f"{type(e).__name__}: {e}"))
        return None
    for key, val in (("bestF", o["f"]), ("totalFEs", o["fes"]),
                     ("lastImprovementFE", o["li"])):
        if key not in st or num(st[key]) != val:
            probs.append((f"log-{key}", f"log says {key}={st.get(key)!r}, "
                          f"the process reported {val!r}"))
    if num(su.get("p.randSeed", "-1")) != seed:
        probs.append(("log-seed", f"log seed {su.get('p.randSeed')} != "
                      f"{seed}"))
    if num(su.get("p.maxFEs", "-1")) != budget:
        probs.append(("log-maxFEs", f"log maxFEs {su.get('p.maxFEs')} != "
                      f"{budget}"))
    for key, val in (names or {}).items():
        if su.get(key) != val:
            probs.append((f"log-setup-{key}", f"SETUP has {key}="
                          f"{su.get(key)!r}, expected {val!r}"))
    for s, k in (("RESULT_Y", "ykey"), ("RESULT_X", "xkey")):
        if s in sec and " ".join(" ".join(sec[s]).split()) \
                != " ".join(str(o[k]).split()):
            probs.append((f"log-{s}", f"section {s} is not the reported "
                          f"solution: {' '.join(sec[s])[:100]!r} vs "
                          f"{str(o[k])[:100]!r}"))
    if "RESULT_Y" not in sec:
        probs.append(("log-RESULT_Y", "section RESULT_Y missing"))
    return sec, st, su


# -------------------------------------------------------------- bin packing
BP_Q = ["a01", "beng01", "cl01_020_01"]
BP_T = BP_Q + ["a10", "beng05", "cl02_020_01", "cl05_020_03", "cl07_020_01",
               "cl10_040_01"]


def bp_tools():
    if "bp" in _C:
        return _C["bp"]
    from mc.jit import compile_module
    from moptipyapps.binpacking2d import experiment as E
    from moptipyapps.binpacking2d.encodings.ibl_encoding_1 import (
        ImprovedBottomLeftEncoding1,
    )
    from moptipyapps.binpacking2d.encodings.ibl_encoding_2 import (
        ImprovedBottomLeftEncoding2,
    )
    from moptipyapps.binpacking2d.packing_result import DEFAULT_OBJECTIVES
    ns = compile_module(P, ["objective_models"])
    objs = {}
    for cls in DEFAULT_OBJECTIVES:
        objs[cls.__name__[0].lower() + cls.__name__[1:]] = cls
    if sorted(objs) != sorted(OBJ_NAMES):
        raise HarnessError(f"objective classes {sorted(objs)}")
    _C["bp"] = {"E": E, "enc": {1: ImprovedBottomLeftEncoding1,
                               2: ImprovedBottomLeftEncoding2},
                "obj": objs, "omodel": ns["objective_models"], "inst": {}}
    return _C["bp"]


def bp_instance(name):
    t = bp_tools()
    if name not in t["inst"]:
        from moptipyapps.binpacking2d.instance import Instance
        t["inst"][name] = Instance.from_resource(name)
    return t["inst"][name]


def bp_model_values(rows, inst):
    """The seven documented objective values by cell painting."""
    t = bp_tools()
    n = rows.shape[0]
    k = int(rows[:, 1].max())
    W, H = int(inst.bin_width), int(inst.bin_height)
    grid = np.zeros((k, W, H), np.int8)
    out = np.zeros(7, np.int64)
    t["omodel"](rows, n, k, W, H, grid, np.zeros(k, np.int64),
                np.zeros(k, np.int64), np.zeros(k, np.int64), out)
    return {OBJ_NAMES[i]: int(out[i]) for i in range(7)}


def bp_run(spec, root):
    t = bp_tools()
    inst = bp_instance(spec["inst"])
    make = t["E"].rls if spec["alg"] == "rls" else t["E"].fea
    ex = make(inst, t["enc"][spec["enc"]], t["obj"][spec["obj"]])
    lf = log_path(root, ex._algorithm, inst, spec["seed"])
    return execute(ex, spec["seed"], spec["budget"], lf)


def bp_parsed_checks(pr, spec, inst, o, mv, probs, tag="from_single_log"):
    """A PackingResult parsed from a log against run, model and instance."""
    t = bp_tools()
    er = pr.end_result
    exp = {"best_f": o["f"], "last_improvement_fe": o["li"],
           "total_fes": o["fes"], "rand_seed": spec["seed"],
           "max_fes": spec["budget"], "algorithm": o["algo"],
           "instance": inst.name, "objective": spec["obj"],
           "encoding": f"ibf{spec['enc']}"}
    for k, v in exp.items():
        if getattr(er, k) != v:
            probs.append((f"{tag}-end_result-{k}",
                          f"{tag}: end_result.{k}={getattr(er, k)!r}, the "
                          f"run had {v!r}"))
    if dict(pr.objectives) != mv:
        probs.append((f"{tag}-objectives", f"{tag}: objectives "
                      f"{dict(pr.objectives)} but the model gives {mv}"))
    bounds = {}
    for nm in OBJ_NAMES:
        ob = t["obj"][nm](inst)
        bounds[f"{nm}.lowerBound"] = ob.lower_bound()
        bounds[f"{nm}.upperBound"] = ob.upper_bound()
        if not ob.lower_bound() <= mv[nm] <= ob.upper_bound():
            probs.append(("objective-outside-bounds", f"{nm}: model value "
                          f"{mv[nm]} outside [{ob.lower_bound()}, "
                          f"{ob.upper_bound()}]"))
    if dict(pr.objective_bounds) != bounds:
        probs.append((f"{tag}-objective_bounds", f"{tag}: objective_bounds "
                      f"{dict(pr.objective_bounds)} but fresh objectives "
                      f"have {bounds}"))
    rows = np.asarray(inst).tolist()
    geo = X.geometric_bins(rows, inst.bin_width, inst.bin_height)
    bb = dict(pr.bin_bounds)
    if sorted(bb) != ["bins.lowerBound", "bins.lowerBound.damv",
                      "bins.lowerBound.geometric"] \
            or bb["bins.lowerBound"] != inst.lower_bound_bins \
            or bb["bins.lowerBound.geometric"] != geo \
            or bb["bins.lowerBound"] != max(
                geo, bb["bins.lowerBound.damv"]):
        probs.append((f"{tag}-bin_bounds", f"{tag}: bin_bounds {bb}; "
                      f"instance lower bound {inst.lower_bound_bins}, "
                      f"geometric bound {geo}"))
    for k, v in (("n_items", inst.n_items),
                 ("n_different_items", inst.n_different_items),
                 ("bin_width", inst.bin_width),
                 ("bin_height", inst.bin_height)):
        if getattr(pr, k) != v:
            probs.append((f"{tag}-{k}", f"{tag}: {k}={getattr(pr, k)} "
                          f"but the instance has {v}"))


def bp_check(spec, root):
    """One bin packing member: two runs + all oracles. -> (probs, info)."""
    from moptipy.spaces.signed_permutations import SignedPermutations
    from moptipyapps.binpacking2d.packing import Packing
    from moptipyapps.binpacking2d.packing_result import from_single_log
    t = bp_tools()
    inst = bp_instance(spec["inst"])
    probs = []
    o = bp_run(spec, os.path.join(root, "r0", f"b{spec['budget']}"))
    o2 = bp_run(spec, os.path.join(root, "r1", f"b{spec['budget']}"))
    info = {"runs": 2, "o": o}
    if not common_checks(o, spec["budget"], probs):
        replication(o, o2, probs)
        return probs, info
    y = o["_y"]
    rows = np.array(y, dtype=np.int64)
    code = P.feasible_intervals(rows, np.asarray(inst).tolist(),
                                inst.bin_width, inst.bin_height,
                                int(y.n_bins))
    if code != P.OK:
        probs.append(("infeasible-" + P.CODE_NAMES[code].replace(" ", "-"),
                      f"final packing: {P.CODE_NAMES[code]} (n_bins="
                      f"{y.n_bins}) {rows.tolist()[:4]}..."))
        replication(o, o2, probs)
        return probs, info
    x = o["_x"]
    if not X.is_signed_permutation(x, inst.get_standard_item_sequence()):
        probs.append(("x-not-in-search-space", f"best x {list(x)}"))
    else:
        enc = t["enc"][spec["enc"]](inst)
        dest = Packing(inst)
        dest.fill(-1)
        xx = SignedPermutations(inst.get_standard_item_sequence()).create()
        xx[:] = x
        enc.decode(xx, dest)
        if not np.array_equal(np.array(dest, dtype=np.int64), rows) \
                or dest.n_bins != y.n_bins:
            probs.append(("y-not-decode-of-x", "decoding the best x with a "
                          "fresh encoder gives another packing than best y"))
    mv = bp_model_values(rows, inst)
    fresh = t["obj"][spec["obj"]](inst).evaluate(y)
    if fresh != o["f"] or type(fresh) is not int:
        probs.append(("best-f-vs-fresh-objective", f"best f {o['f']!r} but a"
                      f" fresh {spec['obj']} gives {fresh!r}"))
    if mv[spec["obj"]] != o["f"]:
        probs.append(("best-f-vs-model", f"best f {o['f']!r} but the "
                      f"documented value of the packing is "
                      f"{mv[spec['obj']]}"))
    if mv["binCount"] != y.n_bins or mv["binCount"] < inst.lower_bound_bins:
        probs.append(("bin-count", f"n_bins {y.n_bins}, model "
                      f"{mv['binCount']}, lower bound "
                      f"{inst.lower_bound_bins}"))
    logged_state_checks(o, spec["budget"], spec["seed"], probs, {
        "g.name": f"ibf{spec['enc']}", "f.name": spec["obj"],
        "y.inst.name": inst.name, "a.name": o["algo"]})
    try:
        with quiet():
            pk = Packing.from_log(o["log"])
        if not np.array_equal(np.array(pk, dtype=np.int64), rows) \
                or pk.n_bins != y.n_bins or pk.instance.name != inst.name \
                or pk.dtype != y.dtype:
            probs.append(("from_log-packing", "Packing.from_log returns "
                          f"{np.array(pk).tolist()[:3]}... n_bins="
                          f"{pk.n_bins} instead of {rows.tolist()[:3]}... "
                          f"n_bins={y.n_bins}"))
    except Exception as e:  # noqa
        probs.append(("from_log-raised", f"Packing.from_log: "
                      f"{type(e).__name__}: {e}"[:300]))
    try:
        # first with the run's own objective only, then with the defaults:
        # each result must carry exactly the objectives that were asked for
        # (whatever was parsed before for an instance of the same name)
        own = bp_tools()["obj"][spec["obj"]]
        with quiet():
            pr1 = from_single_log(o["log"], [own])
        if sorted(pr1.objectives) != [spec["obj"]] \
                or pr1.objectives[spec["obj"]] != mv[spec["obj"]]:
            probs.append(("from_single_log-own-objective-only",
                          "from_single_log(log, [the run's objective]) "
                          f"returns objectives {dict(pr1.objectives)}, "
                          f"expected only {spec['obj']}={mv[spec['obj']]}"))
        with quiet():
            pr = from_single_log(o["log"])
        bp_parsed_checks(pr, spec, inst, o, mv, probs)
        info["pr"] = pr
    except Exception as e:  # noqa
        probs.append(("from_single_log-raised", f"from_single_log: "
                      f"{type(e).__name__}: {e}"[:300]))
    info["mv"] = mv
    replication(o, o2, probs)
    return probs, info


def pr_tuple(pr):
    er = pr.end_result
    return (er.algorithm, er.instance, er.objective, er.encoding,
            er.rand_seed, er.best_f, er.last_improvement_fe, er.total_fes,
            er.max_fes, tuple(sorted(pr.objectives.items())),
            tuple(sorted(pr.objective_bounds.items())),
            tuple(sorted(pr.bin_bounds.items())), pr.n_items,
            pr.n_different_items, pr.bin_width, pr.bin_height)


def bp_dir_check(directory, singles, spec0):
    """from_logs over a run_experiment-shaped directory."""
    from moptipyapps.binpacking2d.packing_result import from_logs
    probs = []
    got = []
    try:
        with quiet():
            from_logs(directory, got.append)
    except Exception as e:  # noqa
        return [("from_logs-raised", f"from_logs({directory}): "
                 f"{type(e).__name__}: {e}"[:300])]
    a = sorted(pr_tuple(p) for p in got)
    b = sorted(pr_tuple(p) for p in singles)
    if a != b:
        probs.append(("from_logs-differs", f"from_logs found {len(a)} "
                      f"results, the {len(b)} single files give other "
                      f"records; first difference: "
                      f"{next((u, v) for u, v in zip(a + [None], b + [None]) if u != v)}"[:400]))
    return probs


# ----------------------------------------------------------------------- TSP
TSP_Q = ["syn2", "syn3", "syn4", "syn5", "gr17", "ulysses16"]
TSP_T = TSP_Q + ["burma14", "gr21", "bayg29"]


def tsp_instance(name):
    from moptipyapps.tsp.instance import Instance
    c = _C.setdefault("tsp", {})
    if name not in c:
        if name.startswith("syn"):
            c[name] = Instance(name, 0, np.array(X.syn_tsp(int(name[3:]))))
        else:
            c[name] = Instance.from_resource(name)
    return c[name]


def tsp_check(spec, root):
    from moptipy.api.execution import Execution
    from moptipy.spaces.permutations import Permutations
    from moptipyapps.tsp.ea1p1_revn import TSPEA1p1revn
    from moptipyapps.tsp.fea1p1_revn import TSPFEA1p1revn
    from moptipyapps.tsp.tour_length import TourLength
    inst = tsp_instance(spec["inst"])
    n = inst.n_cities
    outs = []
    for _ in range(2):
        if spec["alg"] == "rls":    # the setup of examples/tsp_rls.py
            from moptipy.algorithms.so.rls import RLS
            from moptipy.operators.permutations.op0_shuffle import (
                Op0Shuffle,
            )
            from moptipy.operators.permutations.op1_swapn import Op1SwapN
            alg = RLS(Op0Shuffle(Permutations.standard(n)), Op1SwapN())
        else:
            alg = (TSPEA1p1revn if spec["alg"] == "ea"
                   else TSPFEA1p1revn)(inst)
        ex = Execution().set_solution_space(Permutations.standard(n)) \
            .set_algorithm(alg).set_objective(TourLength(inst))
        outs.append(execute(ex, spec["seed"], spec["budget"], None))
    o, o2 = outs
    probs = []
    info = {"runs": 2, "o": o}
    if common_checks(o, spec["budget"], probs):
        y = [int(v) for v in o["_y"]]
        if not MTSP.is_permutation(y, n):
            probs.append(("tour-not-a-permutation", f"best tour {y}"))
        else:
            exp = MTSP.tour_length_exact(np.asarray(inst).tolist(), y)
            fresh = TourLength(inst).evaluate(o["_y"])
            if fresh != o["f"]:
                probs.append(("best-f-vs-fresh-objective", f"best f "
                              f"{o['f']} but TourLength gives {fresh}"))
            if exp != o["f"]:
                probs.append(("best-f-vs-model", f"best f {o['f']} but the "
                              f"cyclic edge sum of {y} is {exp}"))
    replication(o, o2, probs)
    return probs, info


# ------------------------------------------------------------ examples (TTP)
def example(name):
    """Import a guarded example module of the repository by file."""
    key = "c12_example_" + name
    if key in sys.modules:
        return sys.modules[key]
    path = os.path.join(repo_root(), "examples", name + ".py")
    spec = importlib.util.spec_from_file_location(key, path)
    mod = importlib.util.module_from_spec(spec)
    sys.modules[key] = mod
    spec.loader.exec_module(mod)
    return mod


TTP_SETUPS = {"rls_rs.rls": ("ttp_example_experiment_rls_rs", "rls"),
              "rls_rs.rs": ("ttp_example_experiment_rls_rs", "rs"),
              "mo.rls": ("ttp_example_experiment_mo", "rls"),
              "mo.nsga2": ("ttp_example_experiment_mo", "mo_nsga2")}
TTP_Q = ["circ4", "circ6"]
TTP_T = TTP_Q + ["con4", "gal6", "circ8"]


def ttp_instance(name):
    from moptipyapps.ttp.instance import Instance
    c = _C.setdefault("ttp", {})
    if name not in c:
        c[name] = Instance.from_resource(name)
    return c[name]


def ttp_values(inst, plan):
    """(errors, length) of a consistent plan by the reference models."""
    y = np.array(plan, dtype=np.int64)
    st = (inst.home_streak_min, inst.home_streak_max, inst.away_streak_min,
          inst.away_streak_max, inst.separation_min, inst.separation_max)
    dist = np.asarray(inst).astype(np.int64)
    e = int(MTTP.rule_count(y, inst.rounds, *st))
    ln = int(MTTP.plan_length(y, dist, X.bye_penalty(dist.tolist())))
    fe = bool(MTTP.feasible(y, inst.rounds, *st))
    return e, ln, fe


def ttp_check(spec, root):
    from moptipyapps.ttp.errors import Errors
    from moptipyapps.ttp.game_encoding import GameEncoding
    from moptipyapps.ttp.game_plan import GamePlan
    from moptipyapps.ttp.plan_length import GamePlanLength
    modname, fn = TTP_SETUPS[spec["setup"]]
    mod = example(modname)
    inst = ttp_instance(spec["inst"])
    n = inst.n_cities
    mo = spec["setup"].startswith("mo.")
    outs = []
    for rep in range(2):
        ex = getattr(mod, fn)(inst)
        lf = log_path(os.path.join(root, f"r{rep}", f"b{spec['budget']}",
                                   spec["setup"]),
                      ex._algorithm, inst, spec["seed"])
        outs.append(execute(ex, spec["seed"], spec["budget"], lf))
    o, o2 = outs
    probs = []
    info = {"runs": 2, "o": o}
    if common_checks(o, spec["budget"], probs):
        plan = np.array(o["_y"], dtype=np.int64)
        if not X.plan_in_space(plan.tolist(), n, inst.rounds) \
                or not MTTP.consistent(plan):
            probs.append(("plan-not-in-space", "best plan is outside the "
                          f"game plan space or inconsistent: "
                          f"{plan.tolist()}"))
        else:
            e, ln, fe = ttp_values(inst, plan)
            ub = X.plan_length_upper(n, inst.rounds,
                                     np.asarray(inst).tolist())
            exp = X.prioritize(e, ln, ub) if mo else e
            if mo:
                fe0 = Errors(inst).evaluate(o["_y"])
                fl0 = GamePlanLength(inst).evaluate(o["_y"])
                fresh = X.prioritize(fe0, fl0, GamePlanLength(
                    inst).upper_bound())
                if o["fs"] != [e, ln]:
                    probs.append(("best-fs-vs-model", f"best fs {o['fs']} "
                                  f"but the models give {[e, ln]}"))
            else:
                fresh = Errors(inst).evaluate(o["_y"])
            if fresh != o["f"]:
                probs.append(("best-f-vs-fresh-objective", f"best f "
                              f"{o['f']} but fresh objectives give {fresh}"))
            if exp != o["f"]:
                probs.append(("best-f-vs-model", f"best f {o['f']} but the "
                              f"model gives {exp} (errors {e}, length {ln})"))
            if (e == 0) != fe:
                probs.append(("errors-vs-feasible", f"errors {e} but "
                              f"feasible(model)={fe}"))
            ge = GameEncoding(inst)
            if not MTSP.is_permutation(o["_x"], ge.search_space().dimension):
                probs.append(("x-not-in-search-space",
                              f"best x {list(o['_x'])}"))
            else:
                gp = GamePlan(inst)
                gp.fill(0)
                ge.decode(o["_x"], gp)
                if not np.array_equal(np.array(gp, np.int64), plan):
                    probs.append(("y-not-decode-of-x", "decoding best x "
                                  "with a fresh encoder gives another plan"))
            if mo:
                for xa, fsa in o["_archive"]:
                    gp = GamePlan(inst)
                    ge.decode(xa, gp)
                    ea, la, _ = ttp_values(inst, gp)
                    if [ea, la] != fsa:
                        probs.append(("archive-fs-vs-model", f"archive "
                                      f"entry has fs {fsa}, models give "
                                      f"{[ea, la]}"))
                        break
        r = logged_state_checks(o, spec["budget"], spec["seed"], probs, {
            "y.inst.name": inst.name, "a.name": o["algo"],
            "g.name": "GameEncoding"})
        if r is not None and "RESULT_Y" in r[0]:
            # the logged plan, read independently: integers separated by
            # ';' / white space, day by day
            import re
            toks = [t for t in re.split(r"[;\s]+", " ".join(
                r[0]["RESULT_Y"])) if t]
            logged = []
            for t in toks:      # (a human-readable table may follow)
                try:
                    logged.append(int(t))
                except ValueError:
                    break
            want = np.array(o["_y"], dtype=np.int64).ravel().tolist()
            if logged[:len(want)] != want:
                probs.append(("log-RESULT_Y-is-not-the-best-plan",
                              f"the logged plan starts with {len(logged)} "
                              f"integers {toks[:6]}..., the best plan has "
                              f"{len(want)} cells"))
        if r is not None and mo and "bestFs" in r[1] \
                and [int(v) for v in r[1]["bestFs"].split(";")] != o["fs"]:
            probs.append(("log-bestFs", f"log bestFs {r[1]['bestFs']} vs "
                          f"{o['fs']}"))
    replication(o, o2, probs)
    return probs, info


# ---------------------------------------------------------------------- QAP
QAP_Q = ["nug12", "tai12a"]
QAP_T = QAP_Q + ["chr12a", "had12", "scr12"]


def qap_check(spec, root):
    from moptipyapps.qap.instance import Instance
    from moptipyapps.qap.objective import QAPObjective
    mod = example("qap_example_experiment_rls_rs")
    c = _C.setdefault("qap", {})
    if spec["inst"] not in c:
        c[spec["inst"]] = Instance.from_resource(spec["inst"])
    inst = c[spec["inst"]]
    outs = []
    for rep in range(2):
        ex = getattr(mod, spec["setup"])(inst)
        lf = log_path(os.path.join(root, f"r{rep}", f"b{spec['budget']}"),
                      ex._algorithm, inst, spec["seed"])
        outs.append(execute(ex, spec["seed"], spec["budget"], lf))
    o, o2 = outs
    probs = []
    info = {"runs": 2, "o": o}
    if common_checks(o, spec["budget"], probs):
        y = [int(v) for v in o["_y"]]
        if not X.is_permutation(y, inst.n):
            probs.append(("not-a-permutation", f"best assignment {y}"))
        else:
            exp = MQAP.objective(inst.flows.tolist(),
                                 inst.distances.tolist(), y)
            fresh = QAPObjective(inst).evaluate(o["_y"])
            if fresh != o["f"]:
                probs.append(("best-f-vs-fresh-objective", f"best f "
                              f"{o['f']} but QAPObjective gives {fresh}"))
            if exp != o["f"]:
                probs.append(("best-f-vs-model", f"best f {o['f']} but the "
                              f"flow-distance sum of {y} is {exp}"))
        logged_state_checks(o, spec["budget"], spec["seed"], probs, {
            "a.name": o["algo"], "f.name": "qap"})
    replication(o, o2, probs)
    return probs, info


# ------------------------------------------------------ instance generation
IG_Q = [("beng01", 0.25), ("beng01", 0.125), ("cl01_020_01", 0.25),
        ("cl01_020_01", 0.125)]
IG_T = IG_Q + [("a04", 0.25), ("a04", 0.125), ("beng03", 0.25),
               ("cl03_020_01", 0.125)]


def ig_tools():
    if "ig" in _C:
        return _C["ig"]
    import moptipyapps.binpacking2d.instgen.experiment as E
    E.INNER_MAX_FES = INNER_FES
    E.INNER_RUNS = INNER_RUNS
    _C["ig"] = {"E": E, "prob": {}}
    return _C["ig"]


def ig_problem(name, slack):
    from moptipyapps.binpacking2d.instgen.problem import Problem
    t = ig_tools()
    if (name, slack) not in t["prob"]:
        t["prob"][(name, slack)] = Problem(name, slack)
    return t["prob"][(name, slack)]


def ig_inner_runs(inst, seeds, max_fes):
    """
    The documented inner runs of the hardness objective, built from moptipy
    parts: random sampling and RLS minimising the bin count, RLS minimising
    bin count + last skyline, all on signed permutations decoded with the
    first improved-bottom-left encoding, one run per seed.
    """
    from moptipy.algorithms.random_sampling import RandomSampling
    from moptipy.algorithms.so.rls import RLS
    from moptipy.api.execution import Execution
    from moptipy.operators.signed_permutations.op0_shuffle_and_flip import (
        Op0ShuffleAndFlip,
    )
    from moptipy.operators.signed_permutations.op1_swap_2_or_flip import (
        Op1Swap2OrFlip,
    )
    from moptipy.spaces.signed_permutations import SignedPermutations
    from moptipyapps.binpacking2d.encodings.ibl_encoding_1 import (
        ImprovedBottomLeftEncoding1,
    )
    from moptipyapps.binpacking2d.objectives.bin_count import BinCount
    from moptipyapps.binpacking2d.objectives.bin_count_and_last_skyline \
        import BinCountAndLastSkyline
    from moptipyapps.binpacking2d.packing_space import PackingSpace
    runs = []
    for kind, ocls in (("rs", BinCount), ("rls", BinCount),
                       ("rls", BinCountAndLastSkyline)):
        for seed in seeds:
            sp = SignedPermutations(inst.get_standard_item_sequence())
            ob = ocls(inst)
            alg = RandomSampling(Op0ShuffleAndFlip(sp)) if kind == "rs" \
                else RLS(Op0ShuffleAndFlip(sp), Op1Swap2OrFlip())
            ex = Execution().set_search_space(sp).set_solution_space(
                PackingSpace(inst)).set_encoding(
                ImprovedBottomLeftEncoding1(inst)).set_algorithm(
                alg).set_objective(ob).set_max_fes(max_fes).set_rand_seed(
                seed)
            with ex.execute() as p:
                runs.append((p.get_best_f(), ob.lower_bound(),
                             ob.upper_bound(),
                             p.get_last_improvement_fe()))
    return runs


def ig_fresh_eval(space, y):
    """Fresh ErrorsAndHardness with spied seeds -> (value, seed lists)."""
    from moptipyapps.binpacking2d.instgen.errors_and_hardness import (
        ErrorsAndHardness,
    )
    from moptipyapps.binpacking2d.instgen.hardness import DEFAULT_EXECUTORS
    seen = []

    def spy(fn):
        def make(instance):
            ex, f = fn(instance)
            rec = []
            seen.append(rec)
            orig = ex.set_rand_seed

            def srs(seed):
                rec.append(int(seed))
                return orig(seed)
            ex.set_rand_seed = srs
            return ex, f
        return make
    obj = ErrorsAndHardness(space, INNER_FES, INNER_RUNS,
                            [spy(e) for e in DEFAULT_EXECUTORS])
    obj.initialize()
    return obj.evaluate(y), seen


def ig_check(spec, root):
    from moptipyapps.binpacking2d.instance import Instance
    from moptipyapps.binpacking2d.instgen.inst_decoding import (
        InstanceDecoder,
    )
    from moptipyapps.binpacking2d.instgen.instance_space import InstanceSpace
    t = ig_tools()
    prob = ig_problem(spec["inst"], spec["slack"])
    outs = []
    for rep in range(2):
        ex = t["E"].cmaes(prob)
        lf = log_path(os.path.join(root, f"r{rep}", f"b{spec['budget']}"),
                      ex._algorithm, prob, spec["seed"])
        outs.append(execute(ex, spec["seed"], spec["budget"], lf))
    o, o2 = outs
    probs = []
    info = {"runs": 2, "o": o}
    if common_checks(o, spec["budget"], probs):
        src = Instance.from_resource(spec["inst"])
        tmpl = X.template_summary(np.asarray(src).tolist(), src.bin_width,
                                  src.bin_height, src.lower_bound_bins)
        gen = o["_y"][0]
        rows = np.asarray(gen).tolist()
        bad = X.generated_instance_defects(
            gen.name, gen.bin_width, gen.bin_height, rows,
            gen.lower_bound_bins, src.name, tmpl)
        if bad:
            probs.append(("generated-instance-outside-family",
                          "; ".join(bad)))
        sp = prob.search_space
        if not X.in_box(o["_x"], sp.lower_bound, sp.upper_bound):
            probs.append(("x-not-in-search-space", f"best x {list(o['_x'])}"))
        else:
            space = InstanceSpace(src)
            dec = InstanceDecoder(space)
            yy = space.create()
            dec.decode(np.array(o["_x"], dtype=float), yy)
            if space.to_str(yy) != o["ykey"]:
                probs.append(("y-not-decode-of-x", "decoding best x with a "
                              "fresh decoder gives another instance"))
        space = InstanceSpace(src)
        v1, seeds1 = ig_fresh_eval(space, [gen])
        v2, seeds2 = ig_fresh_eval(InstanceSpace(src), gen)
        if v1 != o["f"] or v2 != o["f"]:
            probs.append(("best-f-vs-fresh-objective", f"best f {o['f']!r} "
                          f"but fresh objectives give {v1!r} / {v2!r}"))
        if seeds1 != seeds2 or any(s != seeds1[0] for s in seeds1) \
                or len(set(seeds1[0])) != INNER_RUNS:
            probs.append(("inner-seeds-not-a-function-of-the-name",
                          f"inner seeds {seeds1} / {seeds2}"))
        r = logged_state_checks(o, spec["budget"], spec["seed"], probs, {
            "a.name": o["algo"], "f.name": "errorsAndHardness"})
        if r is not None and not probs:
            su = r[2]
            hard = X.hardness_from_runs(
                ig_inner_runs(gen, seeds1[0], INNER_FES), INNER_FES)
            cnt = X.instgen_deviation_count(rows, tmpl)
            err = X.clamp01(cnt / int(su["f.err.maxErrors"]))
            exp = X.errors_and_hardness(hard, err)
            if not X.close(exp, o["f"], 1e-12):
                probs.append(("best-f-vs-model", f"best f {o['f']!r} but "
                              f"the model gives {exp!r} (hardness {hard!r},"
                              f" deviations {cnt})"))
            if int(su.get("f.hard.maxFEs", -1)) != INNER_FES \
                    or int(su.get("f.hard.nRuns", -1)) != INNER_RUNS:
                raise HarnessError("inner budgets were not patched")
    replication(o, o2, probs)
    return probs, info


# ------------------------------------------------------- controller synthesis
DYN_STEPS = 16
DYN_TIME = 2.0
DYN_RAW_Q = ("linear", "peaks_1", "cornejo_maceda", "linear_3")
DYN_RAW_SKIP = ("lorenz_cubic", )
DYN_SUR_SKIP = "3oscillators"


def dyn_rebuild(o):
    """The system with 3 training cases and few steps (as the tests do)."""
    from moptipyapps.dynamic_control.system import System
    ts = o.training_starting_states
    sub = ts[[0, len(ts) // 2, len(ts) - 1]]
    s = System(o.name, o.state_dims, o.control_dims, o.state_dim_mod,
               o.state_dims_in_j, o.gamma, o.test_starting_states[:2], sub,
               10, DYN_TIME, DYN_STEPS, DYN_TIME, (0, ))
    s.equations = o.equations
    return s


def dyn_makers(kind):
    c = _C.setdefault("dyn", {})
    if kind not in c:
        if kind == "raw":
            from moptipyapps.dynamic_control.experiment_raw import (
                make_instances,
            )
        else:
            from moptipyapps.dynamic_control.experiment_surrogate import (
                make_instances,
            )
        mk = list(make_instances())
        c[kind] = [(m, m()) for m in mk]
    return c[kind]


def dyn_names(kind):
    return [str(i) for _, i in dyn_makers(kind)]


def dyn_instance(kind, idx):
    from moptipyapps.dynamic_control.instance import Instance
    from moptipyapps.dynamic_control.system_model import SystemModel
    _, orig = dyn_makers(kind)[idx]
    s = dyn_rebuild(orig.system)
    if kind == "raw":
        return Instance(s, orig.controller)
    return SystemModel(s, orig.controller, orig.model)


def dyn_model_value(inst, x, variant):
    """Mean / exp(mean(log(J+1)))-1 over the training cases, J by model."""
    from moptipyapps.dynamic_control.ode import run_ode
    s = inst.system
    js = []
    for start in s.training_starting_states:
        ode = run_ode(start, s.equations, inst.controller.controller,
                      np.array(x, dtype=float), inst.controller.control_dims,
                      s.training_steps, s.training_time)
        js.append(MODE.j_float(ode.tolist(), s.state_dims,
                               s.state_dims_in_j, s.gamma))
    return MODE.combine(js, variant)[0]


def dyn_check(spec, root):
    from moptipyapps.dynamic_control.objective import (
        FigureOfMerit,
        FigureOfMeritLE,
    )
    kind = spec["family"][4:]
    idx = spec["idx"]
    if dyn_names(kind)[idx] != spec["inst"]:
        raise HarnessError(f"instance {idx} is {dyn_names(kind)[idx]}, "
                           f"not {spec['inst']}")
    outs = []
    for rep in range(2):
        inst = dyn_instance(kind, idx)
        if kind == "raw":
            from moptipyapps.dynamic_control.experiment_raw import cmaes
            ex = cmaes(inst)
            lf = log_path(os.path.join(root, f"r{rep}", f"b{spec['budget']}"),
                          ex._algorithm, inst, spec["seed"])
        else:
            from moptipyapps.dynamic_control import experiment_surrogate as S
            if spec["setup"] == "cmaes_raw":
                ex = S.cmaes_raw(inst)
            else:
                ex = S.cmaes_surrogate(
                    inst, max(1, spec["budget"] - 2), 8, 4, False)
            lf = None
        outs.append(execute(ex, spec["seed"], spec["budget"], lf))
    o, o2 = outs
    probs = []
    info = {"runs": 2, "o": o}
    if common_checks(o, spec["budget"], probs):
        inst = dyn_instance(kind, idx)
        sp = inst.controller.parameter_space()
        x = [float(v) for v in o["_y"]]
        if not X.in_box(x, sp.lower_bound, sp.upper_bound):
            probs.append(("parameters-outside-the-box", f"best x {x}"))
        else:
            variant = {"figureOfMeritLE": (FigureOfMeritLE, "le"),
                       "figureOfMerit": (FigureOfMerit, "mean")}.get(
                o["objective"])
            if variant is None:
                raise HarnessError(f"objective {o['objective']!r} of the "
                                   "controller synthesis setup is unknown "
                                   "to the check")
            ob = variant[0](inst)
            ob.initialize()
            fresh = ob.evaluate(np.array(x, dtype=float))
            if fresh != o["f"]:
                probs.append(("best-f-vs-fresh-objective", f"best f "
                              f"{o['f']!r} but a fresh {o['objective']} "
                              f"gives {fresh!r}"))
            exp = dyn_model_value(inst, x, variant[1])
            if not X.close(exp, o["f"], 1e-9):
                probs.append(("best-f-vs-model", f"best f {o['f']!r} but "
                              f"the model of the figure of merit gives "
                              f"{exp!r}"))
        if o["log"] is not None:
            logged_state_checks(o, spec["budget"], spec["seed"], probs, {
                "a.name": o["algo"], "f.name": o["objective"]})
    replication(o, o2, probs)
    return probs, info


CHECKS = {"bp": bp_check, "tsp": tsp_check, "ttp": ttp_check,
          "qap": qap_check, "instgen": ig_check, "dyn_raw": dyn_check,
          "dyn_sur": dyn_check}


# ------------------------------------------------------------------- driver
def setup_name(spec):
    f = spec["family"]
    if f == "bp":
        return f"{spec['alg']}/{spec['obj']}/ibf{spec['enc']}"
    if f == "tsp":
        return {"ea": "tsp_ea1p1_revn", "fea": "tsp_fea1p1_revn"}.get(
            spec["alg"], "tsp_rls")
    if f == "instgen":
        return "cmaes"
    if f == "dyn_raw":
        return "cmaes"
    return spec["setup"]


def input_class(spec):
    if spec["family"] == "tsp" and spec["inst"].startswith("syn"):
        return "|n_cities<=3" if int(spec["inst"][3:]) <= 3 \
            else "|n_cities>3"
    return ""


def spec_key(spec):
    return {k: v for k, v in spec.items() if not k.startswith("_")}


def signature(spec, tag):
    """Call site and input class of a failing member."""
    f = spec["family"]
    if f == "bp":
        if tag in ("best-f-vs-fresh-objective", "best-f-vs-model",
                   "objective-outside-bounds", "bin-count"):
            return f"bp|{spec['obj']}|{tag}"
        if tag.startswith(("infeasible", "y-not-decode")):
            return f"bp|ibf{spec['enc']}|{tag}"
        if tag in ("no-progress", "run-raised", "not-replicable"):
            return f"bp|{spec['alg']}|{tag}"
        return f"bp|{tag}"
    return f"{f}|{setup_name(spec)}|{tag}" + input_class(spec)


PYTEST_TSP = '''
def test_c12_replay():
    # the run must return, use at most {budget} FEs and report the true
    # length of its best tour (on the unrepaired tree it may never return)
    import numpy as np
    from moptipy.api.execution import Execution
    from moptipy.spaces.permutations import Permutations
    from moptipyapps.tsp.instance import Instance
    from moptipyapps.tsp.{mod} import {cls}
    from moptipyapps.tsp.tour_length import TourLength
    m = {m}
    inst = Instance("c12", 0, np.array(m))
    with Execution().set_solution_space(Permutations.standard(len(m))) \\
            .set_algorithm({cls}(inst)).set_objective(TourLength(inst)) \\
            .set_max_fes({budget}).set_rand_seed({seed}).execute() as p:
        y = p.create()
        p.get_copy_of_best_y(y)
        assert p.get_consumed_fes() <= {budget}
        assert p.get_best_f() == sum(
            m[y[i]][y[(i + 1) % len(m)]] for i in range(len(m)))
'''


def from_package(exc):
    """Was the exception raised by (or below) code of the repository?"""
    import traceback
    root = os.path.realpath(repo_root())
    return any(os.path.realpath(fr.filename).startswith(root + os.sep)
               for fr in traceback.extract_tb(exc.__traceback__))


def guarded_check(family):
    """An exception out of the package while checking is a finding."""
    fn = CHECKS[family]

    def call(spec, root):
        try:
            return fn(spec, root)
        except HarnessError:
            raise
        except Exception as e:  # noqa
            if not from_package(e):
                raise
            return [("package-raised-" + type(e).__name__,
                     f"{type(e).__name__}: {e}"[:300])], \
                {"runs": 2, "o": {"status": "raised", "f": None,
                                  "fes": None, "li": None, "err": str(e)}}
    return call


def check_member(spec, root):
    """Check one member; a failing member is re-executed before reporting."""
    fn = guarded_check(spec["family"])
    probs, info = fn(spec, root)
    res = {"runs": info["runs"], "viol": [], "flaky": None}
    o = info["o"]
    res["improved"] = bool(o.get("li") and o["li"] > 1)
    res["sample"] = {"spec": spec_key(spec), "best_f": o.get("f"),
                     "fes": o.get("fes"), "last_improvement_fe": o.get("li"),
                     "status": o["status"]}
    if probs:
        again, info2 = fn(spec, os.path.join(root, "again"))
        res["runs"] += info2["runs"]
        t1 = sorted(p[0] for p in probs)
        t2 = sorted(p[0] for p in again)
        if t1 != t2:
            res["flaky"] = (f"{spec_key(spec)}: first {t1}, re-execution "
                            f"{t2}")
        for tag, text in probs:
            if tag in t2:
                rep = spec_key(spec)
                if spec["family"] == "tsp":
                    rep["pytest"] = PYTEST_TSP.format(
                        m=np.asarray(tsp_instance(spec["inst"])).tolist(),
                        cls="TSPEA1p1revn" if spec["alg"] == "ea"
                        else "TSPFEA1p1revn",
                        mod="ea1p1_revn" if spec["alg"] == "ea"
                        else "fea1p1_revn", seed=spec["seed"],
                        budget=spec["budget"])
                res["viol"].append((signature(spec, tag),
                                    f"{spec_key(spec)}: {text}", rep))
    res["_info"] = info
    return res


def job(a):
    """Worker: a list of members (+ the directory clause for bin packing)."""
    import time
    jid, specs, root = a
    jroot = os.path.join(root, f"job{jid}")
    t0 = time.process_time()
    out = {"runs": 0, "members": 0, "improved": 0, "viol": [], "flaky": [],
           "samples": [], "fam": specs[0]["family"], "dir_checks": 0,
           "dir_results": 0, "status": {}}
    singles = {}
    try:
        for spec in specs:
            with open(os.path.join(root, f"now_{os.getpid()}"), "w") as f:
                f.write(repr(spec_key(spec)))   # for diagnosing stragglers
            r = check_member(spec, jroot)
            out["runs"] += r["runs"]
            out["members"] += 1
            out["improved"] += 1 if r["improved"] else 0
            out["viol"] += r["viol"]
            st = r["sample"]["status"]
            out["status"][st] = out["status"].get(st, 0) + 1
            if r["flaky"]:
                out["flaky"].append(r["flaky"])
            if len(out["samples"]) < 1 and r["improved"]:
                out["samples"].append(r["sample"])
            if spec["family"] == "bp" and "pr" in r["_info"]:
                singles.setdefault(spec["budget"], []).append(
                    r["_info"]["pr"])
        if specs[0]["family"] == "bp" and not out["viol"]:
            for budget, prs in singles.items():
                d = os.path.join(jroot, "r0", f"b{budget}")
                pp = bp_dir_check(d, prs, specs[0])
                out["dir_checks"] += 1
                out["dir_results"] += len(prs)
                for tag, text in pp:
                    out["viol"].append((f"bp|{tag}", f"{d}: {text}",
                                        {"family": "bp_dir",
                                         "specs": [spec_key(s) for s in specs
                                                   if s["budget"] == budget]
                                         }))
    finally:
        shutil.rmtree(jroot, ignore_errors=True)
    out["cpu_s"] = round(time.process_time() - t0, 2)
    return out


def bp_run_experiment_job(a):
    """Directory really laid out by moptipy's run_experiment."""
    from moptipy.api.experiment import run_experiment
    from moptipy.utils.nputils import rand_seeds_from_str
    from moptipyapps.binpacking2d.packing import Packing
    from moptipyapps.binpacking2d.packing_result import from_logs
    _, names, root = a
    t = bp_tools()
    base = os.path.join(root, "run_experiment")
    out = {"runs": 0, "members": 0, "improved": 0, "viol": [], "flaky": [],
           "samples": [], "fam": "bp_run_experiment", "dir_checks": 0,
           "dir_results": 0, "status": {}}
    try:
        combos = [("binCountAndLastSmall", 1), ("binCountAndLowestSkyline",
                                                 2)]
        for obj, enc in combos:
            d = os.path.join(base, obj, f"ibf{enc}")
            G = guard_class()

            def mk(fn, _o=obj, _e=enc):
                def setup(inst):
                    ex = fn(inst, t["enc"][_e], t["obj"][_o])
                    ex.set_algorithm(G(ex._algorithm, X.STEP_HORIZON))
                    return ex.set_max_fes(17, True)
                return setup
            with quiet():
                run_experiment(
                    base_dir=d, instances=[(lambda _n=n: bp_instance(_n))
                                           for n in names],
                    setups=[mk(t["E"].rls), mk(t["E"].fea)], n_runs=2,
                    perform_warmup=False, perform_pre_warmup=False)
            got = []
            try:
                with quiet():
                    from_logs(d, got.append)
            except Exception as e:  # noqa
                if not from_package(e):
                    raise
                out["viol"].append((
                    "bp|from_logs-raised", f"from_logs on the directory "
                    f"written by run_experiment ({obj}/ibf{enc}, budget 17, "
                    f"instances {names}): {type(e).__name__}: {e}"[:400],
                    {"family": "bp_run_experiment", "names": names}))
                continue
            out["dir_checks"] += 1
            out["dir_results"] += len(got)
            out["runs"] += len(got)
            if len(got) != 2 * 2 * len(names):
                out["viol"].append((
                    "bp|from_logs-count", f"run_experiment wrote "
                    f"{2 * 2 * len(names)} logs, from_logs returned "
                    f"{len(got)}", {"family": "bp_run_experiment",
                                    "names": names}))
            for pr in got:
                er = pr.end_result
                inst = bp_instance(er.instance)
                spec = {"family": "bp", "obj": obj, "enc": enc,
                        "inst": er.instance, "seed": er.rand_seed,
                        "budget": 17}
                lf = log_path(d, er.algorithm, er.instance, er.rand_seed)
                probs = []
                try:
                    with quiet():
                        pk = Packing.from_log(lf)
                except Exception as e:  # noqa
                    if not from_package(e):
                        raise
                    out["viol"].append((
                        "bp|from_log-raised", f"Packing.from_log({lf}): "
                        f"{type(e).__name__}: {e}"[:400],
                        {"family": "bp_run_experiment", "names": names}))
                    continue
                rows = np.array(pk, dtype=np.int64)
                code = P.feasible_intervals(
                    rows, np.asarray(inst).tolist(), inst.bin_width,
                    inst.bin_height, int(pk.n_bins))
                if code != P.OK:
                    probs.append(("infeasible", P.CODE_NAMES[code]))
                else:
                    mv = bp_model_values(rows, inst)
                    st = kv(read_log(lf)["STATE"])
                    o = {"f": num(st["bestF"]),
                         "li": num(st["lastImprovementFE"]),
                         "fes": num(st["totalFEs"]), "algo": er.algorithm}
                    if o["f"] != mv[obj]:
                        probs.append(("best-f-vs-model", f"logged best f "
                                      f"{o['f']} but the packing is worth "
                                      f"{mv[obj]}"))
                    if er.rand_seed not in [int(s) for s in
                                            rand_seeds_from_str(
                                                er.instance, 2)]:
                        probs.append(("seed", f"seed {er.rand_seed}"))
                    bp_parsed_checks(pr, spec, inst, o, mv, probs,
                                     "from_logs")
                for tag, text in probs:
                    out["viol"].append((
                        f"bp|{tag}", f"run_experiment {obj}/ibf{enc} "
                        f"{er.algorithm} on {er.instance} seed "
                        f"{er.rand_seed}: {text}",
                        {"family": "bp_run_experiment", "names": names}))
                out["members"] += 1
    finally:
        shutil.rmtree(base, ignore_errors=True)
    return out


def dispatch(a):
    if a[0] == "run_experiment":
        return bp_run_experiment_job(a)
    return job(a)


def product(ctx):
    """The configuration space of the tier, as jobs (lists of members)."""
    q = ctx.quick
    jobs = []
    budgets = list(X.BUDGETS)
    # TSP first and simplest first (2, 3, 4, 5 cities, then library ones)
    for inst in (TSP_Q if q else TSP_T):
        jobs.append([{"family": "tsp", "alg": alg, "inst": inst,
                      "seed": s, "budget": b}
                     for alg in ("ea", "fea")
                     for s in seeds_for(inst) for b in budgets])
    # asymmetric instances (the EA / FEA are for symmetric ones only): the
    # randomized local search of examples/tsp_rls.py
    for inst in (("br17", "ftv33") if q else ("br17", "ftv33", "p43")):
        jobs.append([{"family": "tsp", "alg": "rls", "inst": inst,
                      "seed": s, "budget": b}
                     for s in seeds_for(inst) for b in budgets])
    for inst in (BP_Q if q else BP_T):
        for obj in OBJ_NAMES:
            for enc in (1, 2):
                jobs.append([{"family": "bp", "alg": alg, "obj": obj,
                              "enc": enc, "inst": inst, "seed": s,
                              "budget": b}
                             for alg in ("rls", "fea")
                             for s in seeds_for(inst) for b in budgets])
    # an instance whose total item area is an exact multiple of the bin area
    # (the geometric bin bound sits on a division boundary)
    for enc in (1, 2):
        jobs.append([{"family": "bp", "alg": "rls", "obj": OBJ_NAMES[0],
                      "enc": enc, "inst": "asqas03", "seed": s, "budget": b}
                     for s in list(seeds_for("asqas03"))[:2]
                     for b in budgets])
    for inst in (TTP_Q if q else TTP_T):
        for su in TTP_SETUPS:
            jobs.append([{"family": "ttp", "setup": su, "inst": inst,
                          "seed": s, "budget": b}
                         for s in seeds_for(inst) for b in budgets])
    # one tournament with more than 1000 plan cells (24 teams, 46 days):
    # the logged plan must still be loadable
    jobs.append([{"family": "ttp", "setup": su, "inst": "circ24",
                  "seed": s, "budget": budgets[0]}
                 for su in ("rls_rs.rls", "mo.rls")
                 for s in list(seeds_for("circ24"))[:1]])
    for inst in (QAP_Q if q else QAP_T):
        jobs.append([{"family": "qap", "setup": su, "inst": inst,
                      "seed": s, "budget": b}
                     for su in ("rls", "rs")
                     for s in seeds_for(inst) for b in budgets])
    for (inst, slack) in (IG_Q if q else IG_T):
        pname = str(ig_problem(inst, slack))
        jobs.append([{"family": "instgen", "inst": inst, "slack": slack,
                      "seed": s, "budget": b}
                     for s in seeds_for(pname) for b in budgets])
    names = dyn_names("raw")
    for idx, nm in enumerate(names):
        if q and not any(nm.endswith("_" + k) for k in DYN_RAW_Q):
            continue
        if nm in DYN_RAW_SKIP:
            ctx.cap(f"controller synthesis (raw): instance {nm} is not "
                    "executed, one 17-FE member costs about 17 CPU-minutes "
                    "(diverging simulations)")
            continue
        for s in seeds_for(nm):
            for b in budgets:
                jobs.append([{"family": "dyn_raw", "idx": idx, "inst": nm,
                              "seed": s, "budget": b}])
    if not q:
        names = dyn_names("sur")
        first = {}
        for idx, nm in enumerate(names):
            first.setdefault(nm.split("_ann_")[0], idx)
        for idx in sorted(first.values()):
            nm = names[idx]
            if nm.startswith(DYN_SUR_SKIP):
                continue
            for su in ("cmaes_raw", "cmaes_surrogate"):
                for s in seeds_for(nm):
                    for b in budgets:
                        jobs.append([{"family": "dyn_sur", "setup": su,
                                      "idx": idx, "inst": nm, "seed": s,
                                      "budget": b}])
        ctx.cap("controller synthesis (surrogate module): only the first "
                "(controller, model) pair of the Stuart-Landau and of the "
                f"Lorenz system, {len(first) - 1} of {len(names)} instances;"
                " members on the three-coupled-oscillators system cost "
                "10-15 CPU-minutes each (diverging simulations on the "
                "learned model)")
    return jobs


def weight(specs):
    f = specs[0]["family"]
    w = {"dyn_sur": 100, "dyn_raw": 30, "bp": 3}.get(f, 1) * len(specs)
    return w * (specs[0]["budget"] if f.startswith("dyn") else 1)


def pool_map(fn, items, jobs, limit_s=5400):
    """Fork-pool map; a worker that never returns is a harness error."""
    import multiprocessing as mp
    if jobs <= 1 or len(items) <= 1:
        return [fn(i) for i in items]
    with mp.get_context("fork").Pool(min(jobs, len(items))) as pool:
        res = pool.map_async(fn, items, 1)
        try:
            return res.get(limit_s)
        except mp.TimeoutError:
            pool.terminate()
            raise HarnessError(
                "a worker did not return (a run is stuck without polling "
                "should_terminate(), which the step guard cannot see)")


def warm():
    """Compile the kernels before forking."""
    root = os.path.join(_C["root"], "warm")
    bpw = [{"family": "bp", "alg": ("rls", "fea")[i % 2], "obj": ob,
            "enc": 1 + (i + j) % 2, "inst": nm, "seed": 1, "budget": 2}
           for j, nm in enumerate(("beng01", "a01"))
           for i, ob in enumerate(OBJ_NAMES)]
    for spec in bpw + [
            {"family": "tsp", "alg": "ea", "inst": "syn5", "seed": 1,
             "budget": 17},
            {"family": "tsp", "alg": "fea", "inst": "syn5", "seed": 1,
             "budget": 17},
            {"family": "ttp", "setup": "mo.nsga2", "inst": "circ4",
             "seed": 1, "budget": 17},
            {"family": "qap", "setup": "rls", "inst": "nug12", "seed": 1,
             "budget": 2},
            {"family": "instgen", "inst": "cl01_020_01", "slack": 0.25,
             "seed": 1, "budget": 2}]:
        CHECKS[spec["family"]](spec, root)
    shutil.rmtree(root, ignore_errors=True)


def run(ctx: Ctx) -> None:
    root = f"/var/tmp/c12_{os.getpid()}"
    shutil.rmtree(root, ignore_errors=True)
    os.makedirs(root)
    _C["root"] = root
    try:
        bp_tools()
        ig_tools()
        warm()
        ctx.log("kernels compiled")
        members = product(ctx)
        order = sorted(range(len(members)), key=lambda i: -weight(members[i]))
        items = [(i, members[i], root) for i in order]
        items.insert(0, ("run_experiment", ["beng01", "cl01_020_01"], root))
        ctx.log(f"{sum(len(m) for m in members)} members in "
                f"{len(items)} jobs")
        outs = pool_map(dispatch, items, ctx.jobs)
    finally:
        shutil.rmtree(root, ignore_errors=True)
    # report in the simplest-first order of the product
    by_id = {it[0]: o for it, o in zip(items, outs)}
    ordered = [by_id[i] for i in range(len(members))] \
        + [by_id["run_experiment"]]
    flaky = []
    improved = 0
    shown = {}
    for o in ordered:
        fam = o["fam"]
        ctx.add("evaluations", o["runs"])
        ctx.add("traces_validated_against_impl", o["runs"])
        improved += o["improved"]
        ctx.part(fam, members=o["members"], runs=o["runs"],
                 members_with_an_improvement_after_FE_1=o["improved"],
                 directories_parsed=o["dir_checks"],
                 results_from_directories=o["dir_results"],
                 cpu_s=o.get("cpu_s", 0.0),
                 **{"status_" + k: v for k, v in o["status"].items()})
        for s in o["samples"]:
            if shown.get(fam, 0) < 2:       # two samples per family
                shown[fam] = shown.get(fam, 0) + 1
                ctx.sample(s, 16)
        flaky += o["flaky"]
        for sig, text, rep in o["viol"]:
            ctx.violation(sig, text, rep)
    for fl in flaky[:5]:
        ctx.log("not failing identically when re-executed:", fl)
    if flaky and not ctx.violations and not ctx.known_hits:
        raise HarnessError("failing members did not fail identically when "
                           "re-executed: " + "; ".join(flaky[:3]))
    if ctx.quick:
        ctx.cap("quick tier: the sub-product with 3 of 9 bin packing, 6 of 9 "
                "TSP, 2 of 5 TTP, 2 of 5 QAP instances, 4 of 8 instance "
                "generation problems, 8 of 39 raw controller synthesis "
                "instances and no surrogate-module setups; all setups, "
                "seeds and budgets")
    ctx.cov["distinct_nontrivial"] = improved
    ctx.cov["rule"] = (
        "full product setup x instance x seed {1, 2^63, "
        "rand_seeds_from_str(instance name)} x FE budget {1, 2, 17} of the "
        "tier's setup and instance lists, every member executed twice; "
        "evaluations = executed runs; non-trivial = members whose run "
        "improved at least once after the first FE (last improvement FE > "
        "1), measured")
    ctx.assume("seeds are the three-member alphabet, budgets {1, 2, 17}")
    ctx.assume("instance generation with inner budget "
               f"{INNER_FES} FEs x {INNER_RUNS} runs; controller synthesis "
               f"on systems rebuilt with 3 training cases, {DYN_STEPS} "
               f"steps and time horizon {DYN_TIME}")
    ctx.assume("the two setups of experiment_surrogate are executed without "
               "log file and without fancy logs: moptipy's "
               "BiPopCMAES(log_restarts=True) cannot write its restart "
               "section with the installed pycommons (num_to_str rejects "
               "numpy.int64) - outside /repo")
    ctx.assume("a run that never polls should_terminate() is not seen by "
               "the step guard; it ends the check as a harness error")


def replay(ctx: Ctx, rep: dict) -> bool:
    root = f"/var/tmp/c12_{os.getpid()}_replay"
    _C["root"] = root
    try:
        if rep.get("family") == "bp_run_experiment":
            o = bp_run_experiment_job(("run_experiment", rep["names"], root))
            for v in o["viol"]:
                print(v[0], v[1])
            return not o["viol"]
        specs = rep["specs"] if rep.get("family") == "bp_dir" else [rep]
        if rep.get("family") == "bp_dir":
            o = job((0, specs, root))
            for v in o["viol"]:
                print(v[0], v[1])
            return not o["viol"]
        rep = {k: v for k, v in rep.items() if k != "pytest"}
        probs, info = CHECKS[rep["family"]](rep, root)
        o = info["o"]
        print(f"{rep}: status={o['status']} best_f={o['f']} fes={o['fes']} "
              f"last_improvement={o['li']} err={o['err']}")
        for tag, text in probs:
            print(" ", tag, text)
        return not probs
    finally:
        shutil.rmtree(root, ignore_errors=True)
