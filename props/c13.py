"""C13: compiled kernels never access memory outside their arrays."""
import json
import os
import shutil
import subprocess
import sys
import tempfile

import numpy as np

from mc.core import CACHE_DIR, VERIF, Ctx, HarnessError

#: checks whose quick tier is re-run wholesale under bounds checking
WHOLESALE_QUICK = ["C06", "C09", "C10", "C15", "C16", "C20"]
WHOLESALE_THOROUGH = ["C05", "C11", "C14", "C02", "C08", "C07"]
BODIES = ["pack_trees", "pack_objectives", "ttp", "extremes", "spaces",
          "ann_shapes", "model_objective", "tsp_moves"]


# --------------------------------------------------------------- child side
def _guarded(n, dtype, pad=16, fill=-77):
    buf = np.full(n + 2 * pad, fill, dtype)
    return buf, buf[pad:pad + n]


def _guard_ok(buf, n, pad=16, fill=-77):
    return bool((buf[:pad] == fill).all() and (buf[pad + n:] == fill).all())


def body_pack_trees(tier, out):
    from props import pack_common as C
    d = C.drivers()
    specs = [(W, H, 1, 3) for W in range(1, 4) for H in range(1, 4)] \
        + [(3, 3, 4, 4), (2, 2, 5, 5), (4, 3, 1, 3), (1, 1, 1, 5)]
    if tier != "quick":
        specs += [(W, H, 1, 3) for W in (4, 5) for H in range(1, 6)] \
            + [(3, 3, 5, 5), (4, 4, 4, 4)]
    cases = 0
    nodes = 0
    for (W, H, kmin, kmax) in specs:
        for rows in C.enum_instances(W, H, kmax, kmin):
            inst = C.make_instance(W, H, rows)
            arr = np.asarray(inst)
            n = inst.n_items
            y = np.empty((n, 6), arr.dtype)
            fill = 55
            bufs = []

            def wrap(a, bufs=bufs, fill=fill):
                if a.ndim != 1:
                    return a
                b, v = _guarded(len(a), a.dtype, fill=fill)
                v[:] = a
                bufs.append((b, len(a)))
                return v
            a1, _, _ = C.kernel_args(1, inst, wrap)
            a2, bs, be = C.kernel_args(2, inst, wrap)
            xbuf = np.zeros(n, arr.dtype)
            grid = np.zeros((n, W, H), np.int8)
            res = np.zeros(16, np.int64)
            try:
                d["drive_tree"](a1, a2, arr.astype(np.int64), W, H, xbuf, y,
                                bs, be, grid, res, np.zeros(n, np.int64),
                                np.zeros(n, np.int64), 1)
            except IndexError as e:
                out["violations"].append({
                    "signature": "ibl decoders|IndexError under bounds "
                                 "checking",
                    "text": f"bin {W}x{H} items={rows}: {e}",
                    "replay": {"body": "pack_trees", "W": W, "H": H,
                               "rows": rows}})
                return
            if not all(_guard_ok(b, ln, fill=fill) for b, ln in bufs):
                out["violations"].append({
                    "signature": "ibf2|write outside the scratch arrays",
                    "text": f"bin {W}x{H} items={rows}: guard cells around "
                            "the scratch arrays were overwritten",
                    "replay": {"body": "pack_trees", "W": W, "H": H,
                               "rows": rows}})
                return
            cases += 1
            nodes += int(res[0])
    # the public encoder objects allocate their own scratch arrays
    for (W, H, kmin, kmax) in [(2, 2, 1, 4), (3, 2, 1, 3), (1, 3, 1, 3),
                               (3, 3, 1, 3)]:
        for rows in C.enum_instances(W, H, kmax, kmin):
            inst = C.make_instance(W, H, rows)
            for x in C.signed_perms(rows):
                for enc in (1, 2):
                    try:
                        C.public_decode(inst, enc, x)
                    except IndexError as e:
                        out["violations"].append({
                            "signature": f"ibf{enc}|IndexError under bounds"
                                         " checking (public decode)",
                            "text": f"bin {W}x{H} items={rows} x={x}: {e}",
                            "replay": {"body": "pack_trees"}})
                        return
                    cases += 1
    # many items, every item in its own bin (bin index == item index)
    for (W, H, rows) in [(1, 1, [[1, 1, 130]]), (2, 1, [[2, 1, 70],
                                                        [1, 1, 3]]),
                         (1, 2, [[1, 2, 40000]])][:3 if tier != "quick"
                                                  else 2]:
        inst = C.make_instance(W, H, rows)
        seq = inst.get_standard_item_sequence()
        for x in (seq, [-v for v in seq], list(reversed(seq))):
            for enc in (1, 2):
                try:
                    r, nb, _ = C.public_decode(inst, enc, x)
                except IndexError as e:
                    out["violations"].append({
                        "signature": f"ibf{enc}|IndexError under bounds "
                                     "checking",
                        "text": f"bin {W}x{H} items={rows}: {e}",
                        "replay": {"body": "pack_trees"}})
                    return
                cases += 1
                nodes += len(seq)
    out["cases"] = cases
    out["executions"] = nodes


def body_pack_objectives(tier, out):
    from props import pack_common as C
    g = C.gen_drivers()
    specs = [(W, H, 1, 3) for W in range(1, 4) for H in range(1, 4)] \
        + [(2, 2, 4, 4), (4, 2, 1, 2)]
    if tier != "quick":
        specs += [(3, 3, 4, 4), (4, 4, 1, 3), (5, 2, 1, 3)]
    cases = 0
    evals = 0
    for (W, H, kmin, kmax) in specs:
        for rows in C.enum_instances(W, H, kmax, kmin):
            inst = C.make_instance(W, H, rows)
            arr = np.asarray(inst)
            n = inst.n_items
            seq = np.array([v - 1 for v in
                            inst.get_standard_item_sequence()], np.int64)
            y = np.zeros((n, 6), arr.dtype)
            y2 = np.zeros((n, 6), arr.dtype)
            b1, tmp_e = _guarded(n, arr.dtype, fill=99)
            b2, tmp_s = _guarded(n, np.int64, fill=-99)
            res = np.zeros(16, np.int64)
            try:
                g["gen_packings"](arr.astype(np.int64), W, H, seq, y, y2,
                                  tmp_e, tmp_s,
                                  np.zeros((7, n + 1), np.int64),
                                  np.zeros((7, n + 1), np.int64), res,
                                  np.zeros((1, n, 6), arr.dtype),
                                  np.zeros((n, 6), np.int64))
            except IndexError as e:
                out["violations"].append({
                    "signature": "packing objectives|IndexError under "
                                 "bounds checking",
                    "text": f"bin {W}x{H} items={rows}: {e}",
                    "replay": {"body": "pack_objectives"}})
                return
            if not (_guard_ok(b1, n, fill=99) and _guard_ok(b2, n,
                                                            fill=-99)):
                out["violations"].append({
                    "signature": "packing objectives|write outside the "
                                 "temporary array",
                    "text": f"bin {W}x{H} items={rows}",
                    "replay": {"body": "pack_objectives"}})
                return
            cases += 1
            evals += int(res[1])
    # the public objective objects allocate their own temporary arrays
    from moptipyapps.binpacking2d.packing import Packing
    from props.c02 import objectives
    for (W, H, kmin, kmax) in [(2, 2, 1, 4), (3, 2, 1, 3), (1, 3, 1, 3)]:
        for rows in C.enum_instances(W, H, kmax, kmin):
            inst, res, _, _, store, _ = C.all_packings(W, H, rows, 5000)
            objs = objectives(inst)
            pk = Packing(inst)
            for sidx in range(len(store)):
                pk[:, :] = store[sidx]
                pk.n_bins = int(store[sidx][:, 1].max())
                for ob in objs:
                    try:
                        ob.evaluate(pk)
                    except IndexError as e:
                        out["violations"].append({
                            "signature": f"{ob}|IndexError under bounds "
                                         "checking (public evaluate)",
                            "text": f"bin {W}x{H} items={rows} packing="
                                    f"{np.asarray(pk).tolist()}: {e}",
                            "replay": {"body": "pack_objectives"}})
                        return
                    evals += 1
            cases += 1
    out["cases"] = cases
    out["executions"] = evals


def body_ttp(tier, out):
    import itertools

    from models import ttp as M
    from props import ttp_common as T
    d = T.drivers()
    evals = 0
    cases = 0
    todo = [(2, 1, True, False), (2, 2, True, False), (2, 3, True, False),
            (4, 1, False, True)]
    if tier != "quick":
        todo += [(2, 4, True, False), (4, 2, False, False)]
    for (n, rounds, full, corrupt) in todo:
        cfg = np.array(list(itertools.product(range(-n, n + 1), repeat=n)),
                       np.int64) if full else M.day_config_array(n, True)
        days = (n - 1) * rounds
        total = len(cfg) ** days
        if n == 4 and rounds == 2:
            total = min(total, 25 ** 4)
        ub = (4 * days - 1) * n - 1
        st = np.array([[1, 3, 1, 3, 1, 3], [2, 3, 1, 2, 0, 1]], np.int64)
        res = np.zeros(16, np.int64)
        try:
            d["drive_errors"](cfg, days, 0, total, st, rounds,
                              np.array([ub] * len(st), np.int64),
                              1 if corrupt else 0,
                              np.zeros(ub + 1, np.int64), res, 8,
                              np.zeros((5, 8), np.int64))
            evals += int(res[0])
            if res[10]:
                raise IndexError("guard cells around temp arrays damaged")
            dist = np.array([[0 if i == j else 1 + i + 2 * j
                              for j in range(n)] for i in range(n)],
                            np.int64)
            r2 = np.zeros(16, np.int64)
            d["drive_length"](cfg, days, 0, total, dist, 99, 10 ** 9,
                              rounds, np.zeros((0, 6), np.int64), r2, True)
            evals += int(r2[0])
        except IndexError as e:
            # find the plan
            y = np.zeros((days, n), np.int8)
            found = None
            t1 = np.zeros(n * (n - 1) // 2, np.int64)
            t2 = np.zeros((n, n), np.int64)
            for idx in range(total):
                p = T.plan_from_index(idx, cfg, days)
                vs = [p]
                if corrupt:
                    for c in range(days * n):
                        for v in range(-n, n + 1):
                            q = p.copy()
                            q[c // n, c % n] = v
                            vs.append(q)
                for q in vs:
                    y[:, :] = q
                    try:
                        d["count_errors"](y, 1, 3, 1, 3, 1, 3, t1, t2)
                        d["game_plan_length"](y, np.ones((n, n), np.int64),
                                              3)
                    except IndexError:
                        found = q.tolist()
                        break
                if found:
                    break
            selfp = found is not None and any(
                abs(found[dd][n - 1]) == n for dd in range(days))
            out["violations"].append({
                "signature": "count_errors|oob|self-play-last-team"
                if selfp else "ttp kernels|IndexError under bounds checking",
                "text": f"n={n} rounds={rounds} plan={found}: {e}",
                "replay": {"body": "ttp", "plan": found}})
            return
        cases += total
    out["cases"] = cases
    out["executions"] = evals


def body_extremes(tier, out):
    """Extreme inputs through the public API, one case at a time."""
    cases = []

    def case(name, fn):
        cases.append((name, fn))

    from moptipyapps.order1d.distances import swap_distance
    from moptipyapps.qap.instance import Instance as QI
    from moptipyapps.qap.objective import QAPObjective
    from moptipyapps.tsp.instance import Instance as TI
    from moptipyapps.tsp.tour_length import TourLength, tour_length
    import itertools

    for n in (2, 3, 4, 5):
        m = np.array([[0 if i == j else 1 + ((i * 7 + j * 3) % 5)
                       for j in range(n)] for i in range(n)])
        ti = TI(f"t{n}", 0, m)
        tl = TourLength(ti)
        for p in itertools.permutations(range(n)):
            for dt in (np.int8, np.int64, np.uint8):
                case(f"tour_length n={n} p={p} {dt.__name__}",
                     lambda p=p, dt=dt, tl=tl: tl.evaluate(
                         np.array(p, dt)))
    for n in (1, 2, 3):
        f = np.array([[(i + 2 * j) % 3 for j in range(n)]
                      for i in range(n)])
        dm = np.array([[0 if i == j else 1 + i + j for j in range(n)]
                       for i in range(n)])
        if n == 1:
            f = np.array([[1]])
            dm = np.array([[2]])
        qi = QI(dm, f)
        qo = QAPObjective(qi)
        for p in itertools.permutations(range(n)):
            case(f"qap n={n} p={p}",
                 lambda p=p, qo=qo: qo.evaluate(np.array(p)))
    for n in range(1, 6):
        for p in itertools.permutations(range(n)):
            q = tuple(reversed(range(n)))
            case(f"swap_distance {p} {q}",
                 lambda p=p, q=q: swap_distance(np.array(p), np.array(q)))
    # game encoding: every (n, rounds) small, identity + reversed + garbage
    from moptipyapps.ttp.game_encoding import (
        GameEncoding,
        search_space_for_n_and_rounds,
    )
    from props import ttp_common as T
    for n in (2, 4, 6, 8):
        for rounds in (1, 2, 3):
            if (n, rounds) == (2, 1):
                continue
            try:
                sp = search_space_for_n_and_rounds(n, rounds)
                inst = T.make_instance(n, rounds, (1, 3, 1, 3, 0, 3))
            except ValueError:
                continue
            ge = GameEncoding(inst)
            bp = np.array(sp.blueprint)
            for x in (bp, bp[::-1].copy(), np.sort(bp)[::-1].copy()):
                def f(x=x, ge=ge, inst=inst, sp=sp):
                    from moptipyapps.ttp.game_plan import GamePlan
                    xx = sp.create()
                    xx[:] = x
                    gp = GamePlan(inst)
                    gp.fill(77)
                    ge.decode(xx, gp)
                case(f"map_games n={n} rounds={rounds}", f)
    done = 0
    for name, fn in cases:
        try:
            fn()
        except IndexError as e:
            out["violations"].append({
                "signature": name.split(" ")[0] + "|IndexError under bounds"
                             " checking", "text": f"{name}: {e}",
                "replay": {"body": "extremes", "case": name}})
            break
        done += 1
    out["cases"] = done
    out["executions"] = done


def body_spaces(tier, out):
    """
    Extreme cell values that a public space might let through.

    For every cell value at the ends of the storage type (and just outside
    the legal range) the space's validate / from_str is asked first; only
    what the space ACCEPTS is handed to the kernels (an accepted
    out-of-range value makes them index outside their arrays).
    """
    from moptipyapps.ttp.errors import Errors
    from moptipyapps.ttp.game_plan import GamePlan
    from moptipyapps.ttp.game_plan_space import GamePlanSpace
    from moptipyapps.ttp.plan_length import GamePlanLength
    from props import ttp_common as T
    cases = 0
    for (n, rounds) in ((2, 2), (4, 2), (4, 1), (6, 1), (126, 1), (128, 1)):
        ll = rounds * n - 1
        try:
            inst = T.make_instance(n, rounds, (1, ll, 1, ll, 0, ll))
        except ValueError:
            continue
        space = GamePlanSpace(inst)
        err = Errors(inst)
        ln = GamePlanLength(inst)
        info = np.iinfo(inst.game_plan_dtype)
        vals = sorted({int(info.min), int(info.min) + 1, -n - 1, -n, n,
                       n + 1, int(info.max) - 1, int(info.max)})
        days = (n - 1) * rounds
        cells = [(0, 0), (days - 1, n - 1), (days // 2, n // 2)]
        for (d, t) in cells:
            for v in vals:
                gp = GamePlan(inst)
                gp.fill(0)
                gp[d, t] = v
                cases += 1
                accepted = []
                try:
                    space.validate(gp)
                    accepted.append(gp)
                except (ValueError, TypeError):
                    pass
                try:
                    text = ";".join(str(int(q)) for q in
                                    np.asarray(gp).flatten())
                    accepted.append(space.from_str(text))
                except (ValueError, TypeError, OverflowError):
                    pass
                for g in accepted:
                    try:
                        err.evaluate(g)
                        ln.evaluate(g)
                    except IndexError as e:
                        out["violations"].append({
                            "signature": "ttp kernels|IndexError on a plan "
                                         "accepted by the game plan space",
                            "text": f"n={n} rounds={rounds}: value {v} at "
                                    f"cell ({d},{t}) is accepted by "
                                    f"GamePlanSpace but makes a kernel "
                                    f"leave its arrays: {e}",
                            "replay": {"body": "spaces", "n": n,
                                       "rounds": rounds, "value": v,
                                       "cell": [d, t]}})
                        out["cases"] = cases
                        return
    out["cases"] = cases
    out["executions"] = cases


def body_ann_shapes(tier, out):
    """
    Generated networks with one- and two-digit dimensions, built one after
    the other in one process (forwards, then backwards) and executed with
    guard-padded state / output arrays.
    """
    from moptipyapps.dynamic_control.controllers.ann import make_ann
    ins = (2, 3, 21, 31)
    outs = (1, 2, 11, 12)
    shapes = [(i, o) for i in ins for o in outs]
    cases = 0
    for order in (shapes, shapes[::-1]):
        for (i, o) in order:
            c = make_ann(i, o, [3])
            cases += 1
            if c.state_dims != i or c.control_dims != o:
                out["violations"].append({
                    "signature": "make_ann|dimensions differ from the "
                                 "request",
                    "text": f"make_ann({i}, {o}, [3]) reports state_dims="
                            f"{c.state_dims} control_dims={c.control_dims}",
                    "replay": {"body": "ann_shapes", "shape": [i, o]}})
                out["cases"] = cases
                return
            sb, st = _guarded(i, np.float64, fill=-77.0)
            ob, ov = _guarded(o, np.float64, fill=-77.0)
            st[:] = 0.25
            params = np.full(c.param_dims, 0.125)
            try:
                c.controller(st, 0.5, params, ov)
            except IndexError as e:
                out["violations"].append({
                    "signature": "make_ann|IndexError under bounds checking",
                    "text": f"make_ann({i}, {o}, [3]) (after "
                            f"{cases - 1} other architectures in this "
                            f"process): {e}",
                    "replay": {"body": "ann_shapes", "shape": [i, o]}})
                out["cases"] = cases
                return
            if not (_guard_ok(sb, i, fill=-77.0)
                    and _guard_ok(ob, o, fill=-77.0)):
                out["violations"].append({
                    "signature": "make_ann|write outside the output array",
                    "text": f"make_ann({i}, {o}, [3]): guard cells damaged",
                    "replay": {"body": "ann_shapes", "shape": [i, o]}})
                out["cases"] = cases
                return
    out["cases"] = cases
    out["executions"] = cases


def body_model_objective(tier, out):
    """
    The model-training objective kernel under every short history.

    Its scratch array is sized by begin() from the data recorded so far;
    all histories of real evaluations / begin / end / model evaluations to
    depth 5 (see props/c11.py) are run under bounds checking.
    """
    from mc.core import pmap
    from props import c11
    hs = c11.mo_histories(5)
    names = [c11.CONFIGS[0], c11.CONFIGS[3]]
    for name in names:
        c11.get_config(name)
    jobs = [(name, ch) for name in names for ch in c11.chunks(hs, 3)]
    outs = pmap(c11.mo_job, jobs, 6)
    seen = set()
    for o in outs:
        out["cases"] += o["hist"]
        out["executions"] += o["evals"]
        for sig, text, h in o["viol"]:
            if "IndexError" in sig and sig not in seen:
                seen.add(sig)
                out["violations"].append({
                    "signature": "model_objective._evaluate|IndexError "
                                 "under bounds checking",
                    "text": f"{list(o['name'])} history {c11.hname(h)}: "
                            f"{text}",
                    "replay": {"body": "model_objective",
                               "config": list(o["name"]),
                               "history": [list(x) for x in h]}})


def body_tsp_moves(tier, out):
    """
    The reversal kernels of the TSP EA / FEA on every index pair.

    The kernels take "the first, smaller index" i and "the second, larger
    index" j of the tour and read x[j + 1] with index wrap, so every
    0 <= i < j <= n - 1 except the reversal of the whole tour (0, n - 1) is
    an input they define; the tour is a view into a guard-padded buffer and
    each call is made with two different guard fillings: a result that
    depends on the filling has read outside the tour.
    """
    import itertools

    from moptipyapps.tsp.ea1p1_revn import rev_if_not_worse
    from moptipyapps.tsp.fea1p1_revn import rev_if_h_not_worse
    from moptipyapps.tsp.instance import Instance as TI
    done = 0
    seen = set()
    for n in (3, 4, 5, 6):
        m = np.array([[0 if i == j else 1 + ((i * 7 + j * 3 + i * j) % 5)
                       for j in range(n)] for i in range(n)])
        m = m + m.T
        ti = TI(f"t{n}", 0, m)
        ub = int(ti.tour_length_upper_bound)
        for p in itertools.permutations(range(n)):
            if n == 6 and p[0] != 0:
                continue
            y = int(sum(m[p[k], p[(k + 1) % n]] for k in range(n)))
            for i in range(n):
                for j in range(i + 1, n):
                    if i == 0 and j == n - 1:
                        continue
                    for algo in ("ea", "fea"):
                        res = []
                        err = None
                        for fill in (0, n - 1):
                            buf, x = _guarded(n, np.int64, 16, fill)
                            x[:] = p
                            try:
                                if algo == "ea":
                                    r = rev_if_not_worse(i, j, n, ti, x, y)
                                else:
                                    hb, h = _guarded(ub + 1, np.int64, 16,
                                                     -77)
                                    h[:] = 0
                                    r = rev_if_h_not_worse(i, j, n, ti, h,
                                                           x, y)
                                    if not _guard_ok(hb, ub + 1):
                                        err = "frequency table guard hit"
                            except IndexError as e:
                                err = f"IndexError: {e}"
                            except TypeError:
                                r = None   # another kernel interface
                            if err:
                                break
                            if not _guard_ok(buf, n, 16, fill):
                                err = "guard cells around the tour changed"
                                break
                            res.append((x.tolist(), repr(r)))
                        done += 1
                        if err is None and len(res) == 2 \
                                and res[0] != res[1]:
                            err = ("the result depends on the memory next "
                                   f"to the tour: {res[0]} vs {res[1]}")
                        if err:
                            sig = (f"{algo} move kernel|"
                                   + ("j=n-1" if j == n - 1 else "j<n-1")
                                   + "|" + err.split(":")[0])
                            if sig not in seen:
                                seen.add(sig)
                                out["violations"].append({
                                    "signature": sig,
                                    "text": f"n={n} matrix={m.tolist()} "
                                            f"x={list(p)} i={i} j={j}: "
                                            f"{err}",
                                    "replay": {"body": "tsp_moves", "n": n,
                                               "x": list(p), "i": i,
                                               "j": j}})
    out["cases"] = done
    out["executions"] = 2 * done


def child_main(argv):
    body, tier, outp = argv
    if os.environ.get("NUMBA_BOUNDSCHECK") != "1":
        raise SystemExit("child must run with NUMBA_BOUNDSCHECK=1")
    import numba
    if not numba.config.BOUNDSCHECK:
        raise SystemExit("numba did not pick up NUMBA_BOUNDSCHECK")
    out = {"body": body, "violations": [], "cases": 0, "executions": 0}
    # self-test: bounds checking is really on for boundscheck=False kernels
    @numba.njit(cache=False, boundscheck=False)
    def probe(a, i):
        return a[i]
    try:
        probe(np.zeros(3), 3)
        out["selftest"] = "bounds checking is NOT active"
    except IndexError:
        out["selftest"] = "ok"
    globals()["body_" + body](tier, out)
    with open(outp, "w") as f:
        json.dump(out, f)


# -------------------------------------------------------------- parent side
def _child_env(tag):
    env = dict(os.environ)
    env["NUMBA_BOUNDSCHECK"] = "1"
    cdir = os.path.join(CACHE_DIR, f"c13-{tag}-{os.getpid()}")
    os.makedirs(cdir, exist_ok=True)
    env["NUMBA_CACHE_DIR"] = cdir
    env["PYTHONHASHSEED"] = "0"
    env["PYTHONPATH"] = VERIF + os.pathsep + env.get("PYTHONPATH", "")
    return env, cdir


def run(ctx: Ctx) -> None:
    tmp = tempfile.mkdtemp(prefix="c13_", dir=CACHE_DIR)
    procs = []
    try:
        for b in BODIES:
            env, cdir = _child_env(b)
            outp = os.path.join(tmp, b + ".json")
            root = os.environ.get("VERIF_REPO_ROOT")
            code = ("import sys; "
                    + (f"sys.path.insert(0, {root!r}); " if root else "")
                    + f"sys.path.insert(0, {VERIF!r}); "
                    "from props import c13; c13.child_main(sys.argv[1:])")
            p = subprocess.Popen(
                [sys.executable, "-c", code, b, ctx.tier, outp], env=env,
                stdout=subprocess.PIPE, stderr=subprocess.STDOUT, text=True)
            procs.append(("body", b, p, outp, cdir))
        whole = list(WHOLESALE_QUICK)
        if not ctx.quick:
            whole += WHOLESALE_THOROUGH
        whole = [w for w in whole if os.path.exists(
            os.path.join(VERIF, "props", w.lower() + ".py"))]
        per = max(2, ctx.jobs // max(1, len(whole)))
        # the heavy alphabets get more workers (relative cost measured)
        weight = {"C06": 8, "C05": 6, "C15": 3, "C02": 4, "C14": 4,
                  "C07": 3, "C08": 3}
        for w in whole:
            env, cdir = _child_env(w)
            env["VERIF_EVIDENCE_DIR"] = os.path.join(tmp, "ev_" + w)
            env["VERIF_JOBS"] = str(max(1, min(ctx.jobs, weight.get(
                w, per) * ctx.jobs // 16)) if ctx.jobs >= 8 else per)
            p = subprocess.Popen(
                [sys.executable, os.path.join(VERIF, "check.py"), w,
                 "--tier", "quick"], env=env, stdout=subprocess.PIPE,
                stderr=subprocess.STDOUT, text=True)
            procs.append(("check", w, p, None, cdir))
        total_cases = 0
        total_exec = 0
        for kind, name, p, outp, cdir in procs:
            text = p.communicate()[0]
            shutil.rmtree(cdir, ignore_errors=True)
            if kind == "body":
                if p.returncode != 0 or not os.path.exists(outp):
                    raise HarnessError(f"child {name} failed:\n"
                                       + text[-2000:])
                with open(outp) as f:
                    o = json.load(f)
                if o.get("selftest") != "ok":
                    raise HarnessError(f"child {name}: {o.get('selftest')}")
                for v in o["violations"]:
                    ctx.violation(v["signature"], v["text"], v["replay"])
                total_cases += o["cases"]
                total_exec += o["executions"]
                ctx.part("bounds_checked_" + name, cases=o["cases"],
                         executions=o["executions"])
                ctx.log(f"{name}: cases={o['cases']} executions="
                        f"{o['executions']} under NUMBA_BOUNDSCHECK=1")
            else:
                ev = 0
                last = [ln for ln in text.splitlines()
                        if ln.startswith(name + " tier=")]
                if last:
                    for tok in last[-1].split():
                        if tok.startswith("evaluations="):
                            ev = int(tok.split("=")[1])
                if "IndexError" in text:
                    lines = [ln for ln in text.splitlines()
                             if "IndexError" in ln or "violation[" in ln]
                    ctx.violation(
                        f"{name} alphabet|IndexError under bounds checking",
                        f"quick alphabet of {name} re-run with "
                        f"NUMBA_BOUNDSCHECK=1: {' | '.join(lines[:3])[:600]}",
                        {"check": name})
                elif p.returncode == 2:
                    # that check could not run to the end (its own harness
                    # error, reported by the check itself when run alone);
                    # no bounds violation was seen in what it executed
                    ctx.cap(f"the quick alphabet of {name} did not run to "
                            "the end under bounds checking (harness error "
                            "of that check)")
                    ctx.log(f"{name} under bounds checking ended with a "
                            "harness error: " + text[-300:].replace(
                                "\n", " | "))
                elif p.returncode == 1:
                    # a violation of the other property (not a bounds
                    # problem); it is reported by that property's own check
                    ctx.part("wholesale_" + name, note="the check itself "
                             "reports a violation (not an IndexError)")
                total_cases += 1
                total_exec += ev
                ctx.part("wholesale_" + name, executions=ev,
                         exit_code=p.returncode)
                ctx.log(f"{name} quick alphabet under bounds checking: "
                        f"exit={p.returncode} executions={ev}")
        ctx.add("evaluations", total_exec)
        ctx.cov["distinct_nontrivial"] = total_cases
        ctx.cov["rule"] = (
            "the exhaustive quick alphabets of the kernel-driving checks "
            "are re-executed in child processes with NUMBA_BOUNDSCHECK=1 "
            "and a fresh cache (self-test proves the checker is active for "
            "boundscheck=False kernels); scratch arrays are views into "
            "guard-padded buffers; non-trivial = instances/plan-sets/cases "
            "executed")
        ctx.sample({"plan with self-play of the last team": [[-2, -2]],
                    "every item in its own bin": {"bin": [1, 1],
                                                  "items": [[1, 1, 130]]}})
        ctx.assume("numba does not flag slices (they clamp) or negative "
                   "indices that wrap inside the array; out-of-range WRITES "
                   "to scratch arrays are additionally caught by guard "
                   "cells")
    finally:
        for _, _, p, _, cdir in procs:
            if p.poll() is None:
                p.kill()
            shutil.rmtree(cdir, ignore_errors=True)
        shutil.rmtree(tmp, ignore_errors=True)


def replay(ctx: Ctx, rep: dict) -> bool:
    print("re-run: /venv/bin/python /verif/check.py C13 --tier quick", rep)
    return False
