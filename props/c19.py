"""
C19: text forms of instances, solutions and result tables round-trip.

Every object of a stated finite alphabet is written with the real writer of
``/repo`` and parsed back with the real reader; the parsed object must equal
the original FIELD BY FIELD (data, storage type, bounds, derived attributes)
and writing the parsed object again must reproduce the same text. Equality
is decided here (``models/roundtrip.plain`` + ``differences``), never by the
classes' own ``==`` (which only looks at part of the data).

Parts (all exhaustive within the stated bound, simplest first):

``instances_small``     every instance with <= 3 items on every bin up to
                        4 x 4 (thorough: 5 x 5, and 4 items up to 3 x 3):
                        ``to_compact_str``/``from_compact_str`` and
                        ``InstanceSpace.to_str``/``from_str``; the text is
                        also compared with the documented format.
``instances_boundary``  multi-digit / repeated / storage-boundary sizes.
``instances_shipped``   every shipped instance.
``packings``            every feasible packing (explicit-state placement
                        search of ``pack_common``) of the small instances
                        through ``PackingSpace.to_str``/``from_str``; one
                        per instance also through a log file and
                        ``Packing.from_log``; decoded packings of shipped
                        instances; thin bins with sides up to 10^12.
``game_plans``          every plan of the n=2 space, every day-wise
                        consistent 4-team plan (with byes), decoded plans
                        for 4..10 teams, boundary-valued plans for up to 128
                        teams, shipped instances (real team names).
``orderings``           every permutation of length <= 6 on ordering
                        instances with merged objects and 1-2 tag columns;
                        a family for 12/129/257 objects.
``csv_results``         every table with 1 and 2 (thorough: 3) records over
                        the record alphabet, ``to_csv``/``from_csv``.
``csv_statistics``      ``from_packing_results`` of each of those tables
                        (every grouping it accepts) -> ``to_csv``/
                        ``from_csv``; thorough: every subset of one setup's
                        16 records.
``logs``                real runs -> log files -> ``from_logs`` ->
                        CSV -> back.
"""
import contextlib
import io
import itertools
import os
import shutil
import tempfile

import numpy as np

from mc.core import Ctx, HarnessError, pmap
from models import roundtrip as R
from models import ttp as M
from props import pack_common as C
from props import ttp_common as T

# --------------------------------------------------------------------------
# shared helpers
# --------------------------------------------------------------------------
_TMP = {}


def tmp_dir():
    """A scratch directory for this run (memory backed when possible)."""
    if "dir" not in _TMP:
        base = "/dev/shm" if os.path.isdir("/dev/shm") \
            and os.access("/dev/shm", os.W_OK) else tempfile.gettempdir()
        _TMP["dir"] = tempfile.mkdtemp(prefix="c19_", dir=base)
        _TMP["owner"] = os.getpid()
    return _TMP["dir"]


def tmp_file(tag):
    return os.path.join(tmp_dir(), f"{tag}_{os.getpid()}.txt")


def drop_tmp():
    if _TMP.get("owner") == os.getpid():
        shutil.rmtree(_TMP["dir"], ignore_errors=True)
        _TMP.clear()


class _Null(io.TextIOBase):
    def write(self, s):  # noqa
        return len(s)


def quiet():
    """The repo's CSV functions log every call to stdout: swallow that."""
    return contextlib.redirect_stdout(_Null())


def short(o, n=300):
    s = str(o)
    return s if len(s) <= n else s[:n] + "..."


class Bad:
    """
    Collector of violations inside a worker (signature -> first).

    ``rank`` is set by the enumerating loop to the position of the current
    case in the simplest-first order of its part, so that after merging the
    shards the simplest failing case of each signature is the one reported.
    """

    def __init__(self):
        self.items = {}
        self.rank = None

    def add(self, sig, text, rep):
        if sig not in self.items:
            self.items[sig] = (text, rep, self.rank)

    def merge_into(self, other):
        keep_smallest(other, self.items)


def case_order(v):
    rank = v[2] if len(v) > 2 else None
    return (rank is None, rank if rank is not None else (), len(repr(v[1])))


def keep_smallest(found, items):
    for k, v in items.items():
        if k in found:
            try:
                if not case_order(v) < case_order(found[k]):
                    continue
            except TypeError:
                continue
        found[k] = v


def report_all(ctx: Ctx, found: dict):
    """Re-execute each failing case once, then report it."""
    for sig, v in found.items():
        text, rep = v[0], v[1]
        again = run_case(rep)
        if sig not in again:
            raise HarnessError(
                f"case not reproducible: {sig}: {text}; second execution "
                f"gave {sorted(again)}")
        ctx.violation(sig, text, rep)


# --------------------------------------------------------------------------
# (a) instances
# --------------------------------------------------------------------------
NAMES = ["v", "a01", "x", "cl_1_020_01", "A", "9", "007", "inst2n", "1e5",
         "nan", "q" * 40]
BAD_NAMES = ["", "a-b", "a.b", "a b", "a;b", "a,b", "_a", "a_", "-1"]
INST_ATTRS = ("name", "bin_width", "bin_height", "n_items",
              "n_different_items", "total_item_area", "lower_bound_bins")
_SMALL_SRC = {}


def instance_view(inst):
    """Everything the statement lists, as plain data."""
    d = {a: R.plain(getattr(inst, a)) for a in INST_ATTRS}
    d["dtype"] = str(inst.dtype)
    d["shape"] = list(inst.shape)
    d["matrix"] = np.asarray(inst).tolist()
    d["class"] = type(inst).__name__
    return d


def compare_views(a, b):
    return [(k, a[k], b.get(k)) for k in a if a[k] != b.get(k)]


def check_instance(name, W, H, rows, bad: Bad, stats):
    """One instance through both text forms; returns the text or None."""
    from moptipyapps.binpacking2d.instance import Instance
    from moptipyapps.binpacking2d.instgen.instance_space import InstanceSpace
    rep = {"kind": "instance", "name": name, "W": W, "H": H,
           "rows": [list(map(int, r)) for r in rows]}
    what = f"instance name={name!r} bin={W}x{H} items={short(rows, 120)}"
    try:
        inst = Instance(name, W, H, [list(map(int, r)) for r in rows])
    except (ValueError, TypeError):
        stats["rejected"] += 1
        return None
    stats["dtypes"].add(str(inst.dtype))
    facts = R.instance_facts(name, W, H, rows)
    v0 = instance_view(inst)
    got = {"name": inst.name, "W": inst.bin_width, "H": inst.bin_height,
           "n_different": inst.n_different_items, "n_items": inst.n_items,
           "area": inst.total_item_area, "rows": v0["matrix"]}
    if got != facts:
        bad.add("Instance|attributes differ from the constructor input",
                f"{what}: {got} expected {facts}", rep)
    # the same instance handed over as an integer array (narrowest type
    # that holds the entries, int64, and the instance itself): every
    # "representable object" must come out the same whatever form the
    # caller used
    mx = max(max(int(v) for v in r) for r in rows)
    narrow = next(t for t in (np.int8, np.int16, np.int32, np.int64)
                  if np.iinfo(t).max >= mx)
    for src_name, src in (("narrow array", np.array(rows, narrow)),
                          ("int64 array", np.array(rows, np.int64)),
                          ("Fortran-ordered int64 array",
                           np.asfortranarray(np.array(rows, np.int64))),
                          ("transposed view of a (3, n) array",
                           np.ascontiguousarray(
                               np.array(rows, np.int64).T).T),
                          ("the instance itself", inst)):
        try:
            alt = Instance(name, W, H, src)
        except Exception as e:  # noqa
            bad.add("Instance|array input refused although the same rows "
                    "as lists are accepted",
                    f"{what} as {src_name}: {type(e).__name__}: "
                    f"{short(e, 120)}", rep)
            continue
        for (k, x, y) in compare_views(v0, instance_view(alt)):
            bad.add(f"Instance|{k} differs when the rows are handed over as "
                    "an array",
                    f"{what} as {src_name} ({np.asarray(src).dtype}): {k} is"
                    f" {short(y, 100)}, from lists {short(x, 100)}", rep)
    text = inst.to_compact_str()
    exp = R.compact_text(name, W, H, rows)
    if text != exp:
        bad.add("to_compact_str|differs from the documented format",
                f"{what}: {short(text)!r} expected {short(exp)!r}", rep)
    try:
        back = Instance.from_compact_str(text)
    except Exception as e:  # noqa
        bad.add("from_compact_str|raises on the writer's own text",
                f"{what}: text {short(text)!r} -> {type(e).__name__}: "
                f"{short(e, 160)}", rep)
        return text
    stats["executions"] += 1
    for (k, x, y) in compare_views(v0, instance_view(back)):
        bad.add(f"from_compact_str|{k} differs after the round trip",
                f"{what}: text {short(text)!r}: {k} was {short(x, 100)} "
                f"and is {short(y, 100)} after parsing", rep)
    t2 = back.to_compact_str()
    if t2 != text:
        bad.add("to_compact_str|second write differs",
                f"{what}: {short(text)!r} then {short(t2)!r}", rep)
    # the space of the instance generator
    try:
        sp = InstanceSpace(inst)
    except (ValueError, TypeError):
        stats["space_rejected_source"] += 1
        if "sp" not in _SMALL_SRC:
            _SMALL_SRC["sp"] = InstanceSpace(Instance("s", 2, 2, [[1, 1, 1]]))
        sp = _SMALL_SRC["sp"]
    t3 = sp.to_str([inst])
    if t3 != text:
        bad.add("InstanceSpace.to_str|differs from the compact string",
                f"{what}: {short(t3)!r} vs {short(text)!r}", rep)
    try:
        lst = sp.from_str(t3)
        ok = isinstance(lst, list) and len(lst) == 1
        diffs = compare_views(v0, instance_view(lst[0])) if ok else \
            [("result", "list of one instance", short(lst, 80))]
    except Exception as e:  # noqa
        diffs = [("call", "no exception", f"{type(e).__name__}: {e}")]
    stats["executions"] += 1
    for (k, x, y) in diffs:
        bad.add(f"InstanceSpace.from_str|{k} differs after the round trip",
                f"{what}: {k} was {short(x, 100)} and is {short(y, 100)}",
                rep)
    if not diffs:
        try:
            if sp.is_equal([inst], lst) is not True:
                stats["space_is_equal_false"] += 1
        except ValueError:
            stats["space_is_equal_raises"] += 1
    return text


def new_stats():
    return {"rejected": 0, "executions": 0, "space_rejected_source": 0,
            "space_is_equal_false": 0, "space_is_equal_raises": 0,
            "instances": 0, "dtypes": set(), "texts": 0, "skipped_cost": 0}


def _small_inst_job(a):
    W, H, kmin, kmax, shard, nshards = a
    bad = Bad()
    st = new_stats()
    texts = set()
    for idx, rows in enumerate(C.enum_instances(W, H, kmax, kmin)):
        if idx % nshards != shard:
            continue
        name = NAMES[(idx + W + 3 * H) % len(NAMES)]
        bad.rank = (sum(r[2] for r in rows), W * H, len(rows), idx)
        t = check_instance(name, W, H, rows, bad, st)
        st["instances"] += 1
        if t is not None:
            texts.add(hash(t))
    st["texts"] = len(texts)
    return st, bad.items


def small_instance_specs(ctx):
    sp = [(W, H, 1, 3) for W in range(1, 5) for H in range(1, 5)]
    if not ctx.quick:
        sp += [(W, H, 1, 3) for W in range(1, 6) for H in range(1, 6)
               if max(W, H) == 5]
        sp += [(W, H, 4, 4) for W in range(1, 4) for H in range(1, 4)]
    return sp


BOUNDARY_BINS = [(1, 1), (9, 10), (100, 127), (128, 100), (3, 32767),
                 (2 ** 30 - 1, 1), (2 ** 31, 2), (10 ** 12, 1)]
REPS = [1, 2, 10, 11, 126, 127, 128]
REPS_BIG = [32766, 32767, 100_000_000]


def construct_cost(W, H, rows):
    sq = sum(R.cutsq_squares(r[0], r[1]) * r[2] for r in rows)
    return sq * (min(W, H) // 2 + 1)


def boundary_cases(W, H):
    """(name index, rows) for one boundary bin: 1-row and 2-row tables."""
    items = R.boundary_items(W, H)
    out = []
    for it in items:
        for r in REPS:
            out.append([[it[0], it[1], r]])
    for it in (items[0], items[-1]):
        for r in REPS_BIG:
            out.append([[it[0], it[1], r]])
    core = items[:3] + items[-3:] if len(items) > 6 else items
    rows2 = [(it, r) for it in core for r in (1, 2, 11, 128)]
    for (i1, r1) in rows2:
        for (i2, r2) in rows2:
            out.append([[i1[0], i1[1], r1], [i2[0], i2[1], r2]])
    return out


def _boundary_job(a):
    W, H, shard, nshards = a
    bad = Bad()
    st = new_stats()
    texts = set()
    for idx, rows in enumerate(boundary_cases(W, H)):
        if idx % nshards != shard:
            continue
        if construct_cost(W, H, rows) > 60_000:
            st["skipped_cost"] += 1
            continue
        name = NAMES[idx % len(NAMES)]
        bad.rank = (len(rows), len(str(W * H)), idx, W)
        t = check_instance(name, W, H, rows, bad, st)
        st["instances"] += 1
        if t is not None:
            texts.add(hash(t))
    st["texts"] = len(texts)
    return st, bad.items


def _shipped_inst_job(names):
    from moptipyapps.binpacking2d.instance import Instance
    bad = Bad()
    st = new_stats()
    texts = set()
    for nm in names:
        src = Instance.from_resource(nm)
        rows = np.asarray(src).tolist()
        bad.rank = (src.n_items, src.n_different_items, len(nm))
        t = check_instance(src.name, src.bin_width, src.bin_height, rows,
                           bad, st)
        st["instances"] += 1
        if t is not None:
            texts.add(hash(t))
    st["texts"] = len(texts)
    return st, bad.items


def merge_stats(outs, found):
    tot = new_stats()
    for st, items in outs:
        for k, v in st.items():
            if isinstance(v, set):
                tot[k] |= v
            else:
                tot[k] += v
        keep_smallest(found, items)
    return tot


def part_instances(ctx: Ctx, found):
    jobs = []
    for (W, H, kmin, kmax) in small_instance_specs(ctx):
        ns = 4 if W * H >= 9 else 1
        jobs += [(W, H, kmin, kmax, s, ns) for s in range(ns)]
    jobs.sort(key=lambda j: -(j[0] * j[1]) ** j[3])
    tot = merge_stats(pmap(_small_inst_job, jobs, ctx.jobs), found)
    ctx.part("instances_small", instances=tot["instances"],
             round_trips=tot["executions"], distinct_texts=tot["texts"],
             specs=[list(s) for s in small_instance_specs(ctx)],
             instance_space_is_equal_raised=tot["space_is_equal_raises"])
    ctx.log(f"instances_small: {tot['instances']} instances, "
            f"{tot['executions']} round trips")
    total = tot["executions"]
    distinct = tot["texts"]

    bins = BOUNDARY_BINS + [(h, w) for (w, h) in BOUNDARY_BINS if w != h]
    jobs = [(W, H, s, 4) for (W, H) in bins for s in range(4)]
    tot = merge_stats(pmap(_boundary_job, jobs, ctx.jobs), found)
    # invalid names must be refused loudly by the constructor (not demanded
    # by the statement; counted only)
    st = new_stats()
    bb = Bad()
    for nm in BAD_NAMES:
        check_instance(nm, 2, 2, [[1, 1, 1]], bb, st)
    bb.merge_into(found)
    ctx.part("instances_boundary", instances=tot["instances"],
             round_trips=tot["executions"], distinct_texts=tot["texts"],
             bins=[list(b) for b in bins], repetitions=REPS + REPS_BIG,
             storage_types=sorted(tot["dtypes"]),
             rejected_by_constructor=tot["rejected"],
             invalid_names_rejected=st["rejected"],
             skipped_as_too_costly_to_construct=tot["skipped_cost"],
             instance_space_rejects_source=tot["space_rejected_source"])
    ctx.log(f"instances_boundary: {tot['instances']} instances, dtypes "
            f"{sorted(tot['dtypes'])}, skipped {tot['skipped_cost']}")
    total += tot["executions"]
    distinct += tot["texts"]

    from moptipyapps.binpacking2d.instance import Instance
    names = list(Instance.list_resources())
    chunks = [names[i::max(1, ctx.jobs)] for i in range(max(1, ctx.jobs))]
    tot = merge_stats(pmap(_shipped_inst_job, [c for c in chunks if c],
                           ctx.jobs), found)
    ctx.part("instances_shipped", instances=tot["instances"],
             round_trips=tot["executions"], distinct_texts=tot["texts"],
             storage_types=sorted(tot["dtypes"]))
    total += tot["executions"]
    distinct += tot["texts"]
    return total, distinct


# --------------------------------------------------------------------------
# (b) packings
# --------------------------------------------------------------------------
def check_packing(space, inst, pk, mat, bad: Bad, via, what_inst, rep_inst):
    """One packing through to_str/from_str (via == 'space') or a log."""
    from moptipyapps.binpacking2d.packing import Packing
    mat = np.asarray(mat, np.int64)
    nb = int(mat[:, 1].max())
    pk[:, :] = mat
    pk.n_bins = nb
    rep = dict(rep_inst)
    rep.update(kind="packing", matrix=mat.tolist(), via=via)
    what = f"{what_inst} packing={short(mat.tolist(), 200)}"
    text = space.to_str(pk)
    exp = ";".join(str(int(v)) for v in mat.reshape(-1))
    if text != exp:
        bad.add("PackingSpace.to_str|differs from the flattened matrix",
                f"{what}: {short(text)!r} expected {short(exp)!r}", rep)
    try:
        if via == "log":
            from moptipy.api.logging import SECTION_RESULT_Y
            from moptipy.utils.logger import FileLogger
            path = tmp_file("pk")
            with FileLogger(path) as lg, lg.text(SECTION_RESULT_Y) as tx:
                tx.write(text)
            back = Packing.from_log(path, inst)
        else:
            back = space.from_str(text)
    except Exception as e:  # noqa
        bad.add(f"packing|{via}|reader raises on the writer's own text",
                f"{what}: {type(e).__name__}: {short(e, 200)}", rep)
        return text
    probs = []
    if type(back) is not Packing:
        probs.append(("class", "Packing", type(back).__name__))
    elif back.instance is not inst:
        probs.append(("instance", "the space's instance", "another"))
    if back.dtype != pk.dtype or back.dtype != inst.dtype:
        probs.append(("dtype", str(pk.dtype), str(back.dtype)))
    if back.shape != pk.shape \
            or not np.array_equal(np.asarray(back, np.int64), mat):
        probs.append(("data", mat.tolist(), np.asarray(back).tolist()))
    if R.plain(getattr(back, "n_bins", None)) != ("int", nb):
        probs.append(("n_bins", nb, getattr(back, "n_bins", None)))
    for (k, x, y) in probs:
        bad.add(f"packing|{via}|{k} differs after the round trip",
                f"{what}: {k} was {short(x, 120)} and is {short(y, 120)}",
                rep)
    if not probs:
        if not space.is_equal(back, pk):
            bad.add(f"packing|{via}|is_equal denies an equal packing",
                    f"{what}", rep)
        t2 = space.to_str(back)
        if t2 != text:
            bad.add(f"packing|{via}|second write differs",
                    f"{what}: {short(text)!r} then {short(t2)!r}", rep)
    return text


def _packing_job(a):
    from moptipyapps.binpacking2d.packing import Packing
    from moptipyapps.binpacking2d.packing_space import PackingSpace
    W, H, kmin, kmax, shard, nshards = a
    C.gen_drivers()
    bad = Bad()
    cnt = logs = ninst = capped = multi = 0
    texts = set()
    for idx, rows in enumerate(C.enum_instances(W, H, kmax, kmin)):
        if idx % nshards != shard:
            continue
        inst, res, _, _, store, _ = C.all_packings(W, H, rows, 200000)
        if res[9]:
            capped += 1
        ninst += 1
        space = PackingSpace(inst)
        pk = Packing(inst)
        rep_inst = {"W": W, "H": H, "rows": rows, "name": "v"}
        what = f"bin={W}x{H} items={rows}"
        for k, s in enumerate(store):
            bad.rank = (inst.n_items, W * H, idx, k)
            t = check_packing(space, inst, pk, s, bad, "space", what,
                              rep_inst)
            cnt += 1
            texts.add(hash(t))
            if int(np.asarray(s)[:, 1].max()) > 1:
                multi += 1
            if k == len(store) - 1 or k == 0:
                check_packing(space, inst, pk, s, bad, "log", what,
                              rep_inst)
                logs += 1
    return cnt, logs, ninst, capped, len(texts), multi, bad.items


BIG_PACKINGS = [
    ("w", 2_000_000_000, 3, [[5, 2, 1], [1, 1, 1]],
     [[1, 1, 0, 0, 5, 2], [2, 1, 1_999_999_999, 2, 2_000_000_000, 3]]),
    ("w", 3, 2_000_000_000, [[2, 5, 1], [1, 1, 1]],
     [[1, 1, 0, 0, 2, 5], [2, 1, 2, 1_999_999_999, 3, 2_000_000_000]]),
    ("w", 1_000_000_000, 1, [[7, 1, 2]],
     [[1, 1, 0, 0, 7, 1], [1, 1, 999_999_993, 0, 1_000_000_000, 1]]),
    ("w", 10 ** 12, 1, [[10 ** 12, 1, 1], [1, 1, 1]],
     [[1, 1, 0, 0, 10 ** 12, 1], [2, 2, 10 ** 12 - 1, 0, 10 ** 12, 1]]),
    ("w", 1, 10 ** 12, [[1, 10 ** 12, 1], [1, 1, 1]],
     [[1, 2, 0, 0, 1, 10 ** 12], [2, 1, 0, 123_456_789_012, 1,
                                  123_456_789_013]]),
    ("w", 32767, 3, [[32767, 1, 2], [100, 3, 1]],
     [[1, 1, 0, 0, 32767, 1], [1, 1, 0, 1, 32767, 2],
      [2, 2, 32667, 0, 32767, 3]]),
    ("w", 127, 100, [[127, 100, 11], [10, 11, 1]],
     [[1, k + 1, 0, 0, 127, 100] for k in range(11)]
     + [[2, 12, 117, 89, 127, 100]]),
]


def part_big_packings(found):
    from moptipyapps.binpacking2d.packing import Packing
    from moptipyapps.binpacking2d.packing_space import PackingSpace
    bad = Bad()
    cnt = 0
    dts = set()
    for (nm, W, H, rows, mat) in BIG_PACKINGS:
        inst = C.make_instance(W, H, rows, nm)
        dts.add(str(inst.dtype))
        space = PackingSpace(inst)
        pk = Packing(inst)
        for via in ("space", "log"):
            check_packing(space, inst, pk, mat, bad, via,
                          f"bin={W}x{H} items={rows}",
                          {"W": W, "H": H, "rows": rows, "name": nm})
            cnt += 1
    bad.merge_into(found)
    return cnt, sorted(dts)


def _shipped_packing_job(names):
    from moptipyapps.binpacking2d.instance import Instance
    from moptipyapps.binpacking2d.packing import Packing
    from moptipyapps.binpacking2d.packing_space import PackingSpace
    bad = Bad()
    cnt = 0
    texts = set()
    dts = set()
    for nm in names:
        inst = Instance.from_resource(nm)
        space = PackingSpace(inst)
        pk = Packing(inst)
        seq = inst.get_standard_item_sequence()
        for enc, x in ((1, seq), (2, [-v for v in seq[::-1]])):
            bad.rank = (inst.n_items, enc)
            mat, nb, _ = C.public_decode(inst, enc, x)
            rep_inst = {"resource": nm, "enc": enc, "x": "std" if enc == 1
                        else "negated-reversed"}
            t = check_packing(space, inst, pk, mat, bad,
                              "space" if enc == 1 else "log",
                              f"shipped instance {nm} decoder {enc}",
                              rep_inst)
            texts.add(hash(t))
            cnt += 1
        dts.add(str(inst.dtype))
    return cnt, len(texts), dts, bad.items


def packing_specs(ctx):
    q = [(1, 1, 1, 3), (2, 1, 1, 3), (1, 2, 1, 3), (2, 2, 1, 2),
         (2, 2, 3, 3), (3, 1, 1, 3), (3, 2, 1, 2), (3, 2, 3, 3),
         (3, 3, 1, 2), (4, 1, 1, 3), (4, 2, 1, 2), (2, 3, 1, 2)]
    if ctx.quick:
        return q
    return q + [(2, 3, 3, 3), (1, 4, 1, 3), (5, 1, 1, 3), (4, 4, 1, 2),
                (2, 4, 1, 2), (3, 3, 3, 3)]


def part_packings(ctx: Ctx, found):
    C.gen_drivers()
    jobs = []
    for (W, H, kmin, kmax) in packing_specs(ctx):
        ns = ctx.jobs if kmax >= 3 and W * H >= 4 else 2
        jobs += [(W, H, kmin, kmax, s, ns) for s in range(ns)]
    jobs.sort(key=lambda j: -((j[0] * j[1]) ** j[3]))
    out = pmap(_packing_job, jobs, ctx.jobs)
    cnt = sum(o[0] for o in out)
    logs = sum(o[1] for o in out)
    for o in out:
        keep_smallest(found, o[6])
    if any(o[3] for o in out):
        ctx.cap("packings: more than 200000 packings for "
                f"{sum(o[3] for o in out)} instances, the rest not stored")
    ctx.part("packings_all_feasible", instances=sum(o[2] for o in out),
             packings=cnt, via_log_file=logs,
             distinct_texts=sum(o[4] for o in out),
             multi_bin_packings=sum(o[5] for o in out),
             specs=[list(s) for s in packing_specs(ctx)])
    ctx.log(f"packings: {cnt} feasible packings + {logs} through log files")
    total = cnt + logs
    distinct = sum(o[4] for o in out)
    bc, dts = part_big_packings(found)
    ctx.part("packings_boundary_bins", round_trips=bc, storage_types=dts)
    total += bc
    from moptipyapps.binpacking2d.instance import Instance
    lim = 60 if ctx.quick else 250
    names = [n for n in Instance.list_resources()
             if Instance.from_resource(n).n_items <= lim]
    if len(names) < len(Instance.list_resources()):
        ctx.cap(f"decoded packings of shipped instances: only the "
                f"{len(names)} instances with <= {lim} items (validation "
                f"inside from_str is quadratic)")
    nch = max(1, min(ctx.jobs * 2, len(names)))
    out = pmap(_shipped_packing_job, [names[i::nch] for i in range(nch)],
               ctx.jobs)
    for o in out:
        keep_smallest(found, o[3])
    dts = set()
    for o in out:
        dts |= o[2]
    ctx.part("packings_shipped_decoded", instances=len(names),
             round_trips=sum(o[0] for o in out), storage_types=sorted(dts),
             distinct_texts=sum(o[1] for o in out))
    total += sum(o[0] for o in out)
    distinct += sum(o[1] for o in out)
    return total, distinct


# --------------------------------------------------------------------------
# (b) game plans
# --------------------------------------------------------------------------
_TTP = {}


def ttp_instance(n, rounds):
    key = (n, rounds)
    if key not in _TTP:
        ll = rounds * n - 1
        _TTP[key] = T.make_instance(n, rounds, (1, ll, 1, ll, 0, ll))
    return _TTP[key]


def check_plan(space, inst, gp, y, bad: Bad, rep):
    """One game plan through GamePlanSpace.to_str/from_str."""
    from moptipyapps.ttp.game_plan import GamePlan
    y = np.asarray(y, np.int64)
    gp[:, :] = y
    rep = dict(rep)
    rep.update(kind="plan", plan=y.tolist())
    what = f"teams={inst.n_cities} rounds={inst.rounds} " \
           f"plan={short(y.tolist(), 200)}"
    text = space.to_str(gp)
    first = R.plan_first_line(y)
    tail = text.find("\n") > 0 and len(text) > len(first) + 2
    outs = []
    for label, tx in (("text", text), ("first-line-only", first)):
        try:
            back = space.from_str(tx)
        except Exception as e:  # noqa
            bad.add(f"game_plan|{label}|reader raises on the writer's text",
                    f"{what}: {type(e).__name__}: {short(e, 200)}; text "
                    f"starts {short(text, 80)!r}", rep)
            continue
        outs.append(back)
        probs = []
        if type(back) is not GamePlan:
            probs.append(("class", "GamePlan", type(back).__name__))
        elif back.instance is not inst:
            probs.append(("instance", "the space's instance", "another"))
        if back.dtype != inst.game_plan_dtype or back.dtype != gp.dtype:
            probs.append(("dtype", str(gp.dtype), str(back.dtype)))
        if back.shape != gp.shape \
                or not np.array_equal(np.asarray(back, np.int64), y):
            probs.append(("data", y.tolist(), np.asarray(back).tolist()))
        for (k, a, b) in probs:
            bad.add(f"game_plan|{label}|{k} differs after the round trip",
                    f"{what}: {k} was {short(a, 120)} and is "
                    f"{short(b, 120)}; text starts {short(text, 60)!r}",
                    rep)
        if not probs and label == "text":
            if not space.is_equal(back, gp):
                bad.add("game_plan|is_equal denies an equal plan", what,
                        rep)
            t2 = space.to_str(back)
            if t2 != text:
                bad.add("game_plan|second write differs",
                        f"{what}: {short(text)!r} then {short(t2)!r}", rep)
    return text, tail


def _plan_range_job(a):
    from moptipyapps.ttp.game_plan import GamePlan
    from moptipyapps.ttp.game_plan_space import GamePlanSpace
    n, rounds, mode, lo, hi = a
    if mode == "all":
        cfg = np.array(list(itertools.product(range(-n, n + 1), repeat=n)),
                       np.int64)
    else:
        cfg = M.day_config_array(n, mode == "byes")
    days = (n - 1) * rounds
    inst = ttp_instance(n, rounds)
    space = GamePlanSpace(inst)
    gp = GamePlan(inst)
    bad = Bad()
    texts = set()
    tails = 0
    for idx in range(lo, hi):
        y = T.plan_from_index(idx, cfg, days)
        bad.rank = (n, rounds, idx)
        t, tl = check_plan(space, inst, gp, y, bad,
                           {"n": n, "rounds": rounds})
        texts.add(hash(t))
        tails += tl
    return hi - lo, len(texts), tails, bad.items


def plan_ranges(ctx, n, rounds, mode, hi=None):
    k = (2 * n + 1) ** n if mode == "all" else \
        len(M.day_configs(n, mode == "byes"))
    total = k ** ((n - 1) * rounds)
    top = total if hi is None else min(hi, total)
    nch = max(1, min(ctx.jobs * 4, top // 500))
    b = [top * i // nch for i in range(nch + 1)]
    return total, top, [(n, rounds, mode, b[i], b[i + 1])
                        for i in range(nch) if b[i] < b[i + 1]]


def game_permutations(bp, complete):
    """Permutations of the game multiset fed to the real decoder."""
    bp = sorted(int(v) for v in bp)
    m = len(bp)
    if complete:
        seen = set()
        for p in itertools.permutations(bp):
            if p not in seen:
                seen.add(p)
                yield list(p)
        return
    fam = [bp, bp[::-1]]
    from math import gcd
    for s in [s for s in range(2, m) if gcd(s, m) == 1][:8]:
        fam.append([bp[(i * s) % m] for i in range(m)])
    for p in fam:
        yield p


def _decoded_job(a):
    from moptipyapps.ttp.game_encoding import GameEncoding
    from moptipyapps.ttp.game_plan import GamePlan
    from moptipyapps.ttp.game_plan_space import GamePlanSpace
    from moptipyapps.ttp.instance import Instance
    kind, n, rounds, complete = a
    if kind == "resource":
        inst = Instance.from_resource(n)
        rep = {"resource": n}
    else:
        inst = ttp_instance(n, rounds)
        rep = {"n": n, "rounds": rounds}
    enc = GameEncoding(inst)
    ss = enc.search_space()
    space = GamePlanSpace(inst)
    gp = GamePlan(inst)
    dec = GamePlan(inst)
    x = ss.create()
    bad = Bad()
    texts = set()
    cnt = tails = 0
    for k, p in enumerate(game_permutations(ss.blueprint, complete)):
        bad.rank = (inst.n_cities, inst.rounds, k)
        x[:] = p
        enc.decode(x, dec)
        t, tl = check_plan(space, inst, gp, np.array(dec, np.int64), bad,
                           rep)
        texts.add(hash(t))
        cnt += 1
        tails += tl
    return cnt, len(texts), tails, bad.items, str(inst.game_plan_dtype)


def _pattern_job(a):
    from moptipyapps.ttp.game_plan import GamePlan
    from moptipyapps.ttp.game_plan_space import GamePlanSpace
    n, rounds = a
    inst = ttp_instance(n, rounds)
    space = GamePlanSpace(inst)
    gp = GamePlan(inst)
    bad = Bad()
    cnt = tails = 0
    texts = set()
    days = (n - 1) * rounds
    for k, kind in enumerate(("ramp", "ramp-reversed", -n, -1, 0, 1, n)):
        bad.rank = (n, rounds, k)
        t, tl = check_plan(space, inst, gp, R.pattern_plan(days, n, kind),
                           bad, {"n": n, "rounds": rounds})
        texts.add(hash(t))
        cnt += 1
        tails += tl
    return cnt, len(texts), tails, bad.items, str(inst.game_plan_dtype)


def part_game_plans(ctx: Ctx, found):
    total = distinct = 0

    def absorb(name, out, **kv):
        nonlocal total, distinct
        for o in out:
            keep_smallest(found, o[3])
        c = sum(o[0] for o in out)
        d = sum(o[1] for o in out)
        ctx.part(name, plans=c, distinct_texts=d,
                 texts_with_human_readable_tail=sum(o[2] for o in out), **kv)
        total += 2 * c
        distinct += d
        return c

    for rounds in ((1, 2, 3) if ctx.quick else (1, 2, 3, 4)):
        tot, top, jobs = plan_ranges(ctx, 2, rounds, "all")
        absorb(f"plans_n2_r{rounds}_all", pmap(_plan_range_job, jobs,
                                                ctx.jobs), of_total=tot)
    for mode in ("consistent", "byes"):
        tot, top, jobs = plan_ranges(ctx, 4, 1, mode)
        absorb(f"plans_n4_r1_{mode}", pmap(_plan_range_job, jobs, ctx.jobs),
               of_total=tot)
    hi = 12 ** 4 if ctx.quick else None
    tot, top, jobs = plan_ranges(ctx, 4, 2, "consistent", hi)
    c = absorb("plans_n4_r2_consistent", pmap(_plan_range_job, jobs,
                                              ctx.jobs), of_total=tot)
    ctx.log(f"game plans: n=4 double round robin {c}/{tot}")
    if top < tot:
        ctx.cap(f"4-team double round-robin plans: only the first {top} of "
                f"{tot} in lexicographic order (first two days fixed)")
    # decoded plans
    jobs = [("made", 4, 1, True)]
    jobs += [("made", n, r, False) for n in (4, 6, 8, 10) for r in (1, 2)
             if (n, r) != (4, 1)]
    out = pmap(_decoded_job, jobs, ctx.jobs)
    absorb("plans_decoded_4_to_10_teams", out,
           settings=[list(j[1:3]) for j in jobs])
    from moptipyapps.ttp.instance import Instance
    names = list(Instance.list_resources())
    use = [n for n in names if not ctx.quick or n in ("bra24", "nfl32")
           or Instance.from_resource(n).n_cities <= 8]
    out = pmap(_decoded_job, [("resource", n, 0, False) for n in use],
               ctx.jobs)
    absorb("plans_decoded_shipped_instances", out, instances=len(use),
           storage_types=sorted({o[4] for o in out}))
    if len(use) < len(names):
        ctx.cap(f"decoded plans of shipped TTP instances: {len(use)} of "
                f"{len(names)} instances in the quick tier")
    pj = [(2, 1), (2, 5), (4, 3), (10, 1), (126, 1), (128, 1)]
    out = pmap(_pattern_job, pj, ctx.jobs)
    absorb("plans_boundary_values", out, settings=[list(p) for p in pj],
           storage_types=sorted({o[4] for o in out}))
    return total, distinct


# --------------------------------------------------------------------------
# (b) orderings
# --------------------------------------------------------------------------
def ordering_instance(values, ntags):
    from moptipyapps.order1d.instance import Instance
    titles = ("obj", "pos")[:ntags]
    objs = [(v, i) for i, v in enumerate(values)]

    def tags(o):
        return (f"v{o[0]}", f"p{o[1]}")[:ntags]
    return Instance.from_sequence_and_distance(
        objs, lambda a, b: abs(a[0] - b[0]), 2, 10, titles, tags)


def check_ordering(space, perm, bad: Bad, rep):
    x = np.array(perm, space.dtype)
    rep = dict(rep)
    rep.update(kind="ordering", perm=[int(v) for v in perm])
    what = f"objects={short(rep['values'], 80)} tags={rep['ntags']} " \
           f"permutation={short(list(perm), 120)}"
    text = space.to_str(x)
    first = ";".join(str(int(v)) for v in perm)
    tail = len(text) > len(first)
    for label, tx in (("text", text), ("first-line-only", first)):
        try:
            back = space.from_str(tx)
        except Exception as e:  # noqa
            bad.add(f"ordering|{label}|reader raises on the writer's text",
                    f"{what}: {type(e).__name__}: {short(e, 200)}; text "
                    f"starts {short(text, 80)!r}", rep)
            continue
        probs = []
        if not isinstance(back, np.ndarray):
            probs.append(("class", "ndarray", type(back).__name__))
        else:
            if back.dtype != space.dtype:
                probs.append(("dtype", str(space.dtype), str(back.dtype)))
            if back.shape != x.shape or not np.array_equal(back, x):
                probs.append(("data", x.tolist(), back.tolist()))
        for (k, a, b) in probs:
            bad.add(f"ordering|{label}|{k} differs after the round trip",
                    f"{what}: {k} was {short(a, 120)} and is "
                    f"{short(b, 120)}", rep)
        if not probs and label == "text":
            if not space.is_equal(back, x):
                bad.add("ordering|is_equal denies an equal permutation",
                        what, rep)
            t2 = space.to_str(back)
            if t2 != text:
                bad.add("ordering|second write differs",
                        f"{what}: {short(text)!r} then {short(t2)!r}", rep)
    return text, tail


def _ordering_job(cases):
    from moptipyapps.order1d.space import OrderingSpace
    bad = Bad()
    cnt = rejected = tails = 0
    texts = set()
    sizes = set()
    dts = set()
    for (values, ntags, complete) in cases:
        inst = ordering_instance(values, ntags)
        try:
            space = OrderingSpace(inst)
        except ValueError:
            rejected += 1
            continue
        n = inst.n
        sizes.add(n)
        dts.add(str(space.dtype))
        perms = R.all_permutations(n) if complete \
            else R.permutation_family(n)
        rep = {"values": list(values), "ntags": ntags}
        for k, p in enumerate(perms):
            bad.rank = (n, len(values), ntags, k)
            t, tl = check_ordering(space, p, bad, rep)
            texts.add(hash(t))
            cnt += 1
            tails += tl
    return cnt, len(texts), tails, bad.items, rejected, sizes, dts


def part_orderings(ctx: Ctx, found):
    cases = []
    for ln in range(1, 5 if ctx.quick else 6):
        for seq in itertools.product(range(4), repeat=ln):
            cases.append((list(seq), 1 + (sum(seq) % 2), True))
    for n in range(2, 7):
        cases.append((list(range(n)), 1, True))
        cases.append((list(range(n))[::-1] + [0, n - 1], 2, True))
    cases.append(([3 * i for i in range(12)], 2, False))
    cases.append((list(range(129)), 1, False))
    cases.append((list(range(257)), 2, False))
    nch = max(1, min(ctx.jobs * 2, len(cases) // 4))
    out = pmap(_ordering_job, [cases[i::nch] for i in range(nch)], ctx.jobs)
    for o in out:
        keep_smallest(found, o[3])
    sizes = set()
    dts = set()
    for o in out:
        sizes |= o[5]
        dts |= o[6]
    cnt = sum(o[0] for o in out)
    ctx.part("orderings", instances=len(cases), permutations=cnt,
             distinct_texts=sum(o[1] for o in out),
             texts_with_tag_table=sum(o[2] for o in out),
             space_rejected_instances=sum(o[4] for o in out),
             permutation_lengths=sorted(sizes), storage_types=sorted(dts))
    ctx.log(f"orderings: {len(cases)} instances, {cnt} permutations, "
            f"lengths {sorted(sizes)}")
    return 2 * cnt, sum(o[1] for o in out)


# --------------------------------------------------------------------------
# (c) CSV tables
# --------------------------------------------------------------------------
TABLE_INSTANCES = {
    # name: (W, H, rows); chosen so that the three bin bounds are not all
    # equal: ia -> (2, damv 1, geometric 2), ib -> (3, damv 3, geometric 2);
    # table_world() verifies that (else exchanged columns would go unseen)
    "ia": (3, 2, [[1, 1, 7]]),
    "ib": (10, 12, [[7, 8, 3], [4, 5, 1], [3, 1, 11]]),
}
ALGOS = ("a1", "a2")
OBJS = ("binCount", "binCountAndLastSmall")
ENCS = (None, "ibf1")
MAX_FES = (None, 100)
MAX_MS = (None, 1000)
GOALS = (None, "lb")
SEEDS = (1, 2)
# per seed: last improvement FE / ms, total FEs / ms, which packing
RUN = {1: (1, 0, 1, 0), 2: (17, 23, 99, 999), 3: (5, 7, 99, 999)}
_TAB = {}


def table_world():
    """Instances and the two real packings of each (built once)."""
    if _TAB:
        return _TAB
    from moptipyapps.binpacking2d.packing import Packing
    world = {}
    for nm, (W, H, rows) in TABLE_INSTANCES.items():
        inst = C.make_instance(W, H, rows, nm)
        seq = inst.get_standard_item_sequence()
        mat, nb, _ = C.public_decode(inst, 1, seq)
        good = Packing(inst)
        good[:, :] = mat
        good.n_bins = nb
        poor = Packing(inst)  # one item per bin, at the origin
        for i, t in enumerate(seq):
            poor[i, :] = [t, i + 1, 0, 0, inst[t - 1, 0], inst[t - 1, 1]]
        poor.n_bins = len(seq)
        # the same layout with the bins numbered backwards: bin count and
        # the "least filled bin" objectives are equal to `poor`, the "last
        # bin" objectives differ (a statistics group of these two runs has
        # a constant column next to a varying one)
        rev = Packing(inst)
        for i, t in enumerate(seq):
            rev[i, :] = [t, len(seq) - i, 0, 0, inst[t - 1, 0],
                         inst[t - 1, 1]]
        rev.n_bins = len(seq)
        world[nm] = (inst, {1: good, 2: poor, 3: rev})
    _TAB["world"] = world
    _TAB["cache"] = {}
    _TAB["recs"] = {}
    from moptipyapps.binpacking2d import packing_result as PR
    from moptipy.evaluation.end_results import EndResult
    seen = set()
    for nm, (inst, pks) in world.items():
        bb = PR.from_packing_and_end_result(EndResult(
            "x", nm, "binCount", None, 1, pks[1].n_bins, 1, 0, 1, 0, None,
            None, None), pks[1]).bin_bounds
        v = [bb.get("bins.lowerBound"), bb.get("bins.lowerBound.damv"),
             bb.get("bins.lowerBound.geometric")]
        seen |= {(i, j) for i in range(3) for j in range(3) if v[i] != v[j]}
        if pks[1].n_bins == pks[2].n_bins or inst.n_items == \
                inst.n_different_items or inst.bin_width == inst.bin_height:
            raise HarnessError(f"table instance {nm} does not discriminate")
    if len(seen) != 6:
        raise HarnessError("table instances do not tell the three bin "
                           f"bound columns apart: {sorted(seen)}")
    return _TAB


def base_specs():
    """The record alphabet, simplest first."""
    out = []
    for inst in TABLE_INSTANCES:
        for algo in ALGOS:
            for obj in OBJS:
                for enc in ENCS:
                    for mf in MAX_FES:
                        for mt in MAX_MS:
                            for g in GOALS:
                                for seed in SEEDS:
                                    out.append({
                                        "algorithm": algo, "instance": inst,
                                        "objective": obj, "encoding": enc,
                                        "max_fes": mf,
                                        "max_time_millis": mt, "goal": g,
                                        "seed": seed, "packing": seed})
    out.sort(key=lambda s: sum(
        s[k] is not None for k in ("encoding", "max_fes",
                                   "max_time_millis", "goal")))
    return out


def boundary_specs():
    """Records with multi-digit / extreme values (thorough + quick pairs)."""
    b = {"algorithm": "rls_swap2", "instance": "ib",
         "objective": "binCountAndLowestSkyline", "encoding": "ibf2",
         "max_fes": None, "max_time_millis": None, "goal": None, "seed": 0,
         "packing": 1}
    out = [dict(b)]
    out.append(dict(b, seed=2 ** 64 - 1, run=[10 ** 15, 10 ** 11 - 1,
                                               10 ** 15, 10 ** 11 - 1],
                    max_fes=10 ** 18, max_time_millis=10 ** 11))
    out.append(dict(b, algorithm="a1b2_c3", goal=0.5, seed=255, packing=2))
    out.append(dict(b, goal=-3, seed=256, objective="binCountAndEmpty"))
    out.append(dict(b, goal=1e300, seed=65535, encoding=None,
                    objective="binCountAndLastEmpty"))
    out.append(dict(b, goal=12345678.75, seed=65536, max_fes=123456789,
                    objective="binCountAndLastSkyline", packing=2))
    out.append(dict(b, instance="ia", objective="binCountAndSmall",
                    goal="lb", seed=4294967296, max_time_millis=1))
    return out


def float_specs():
    """Records over nine objectives: one real valued, one that can be 0."""
    return [{"algorithm": "a1", "instance": i, "objective": o,
             "encoding": None, "max_fes": mf, "max_time_millis": None,
             "goal": g, "seed": sd, "packing": sd, "objset": "float"}
            for i in TABLE_INSTANCES for o in ("thirdBins", "binCount")
            for mf in MAX_FES for g in (None, "lb", 0.1) for sd in SEEDS]


def objective_set(name):
    """The objective factories of a record ('float': one more, real)."""
    from moptipyapps.binpacking2d import packing_result as PR
    if name is None:
        return PR.DEFAULT_OBJECTIVES
    if "float" not in _TAB:
        from moptipy.api.objective import Objective

        class ThirdBins(Objective):
            """Number of bins plus one third: a real valued objective."""

            def __init__(self, instance):
                super().__init__()
                self.n = instance.n_items

            def evaluate(self, x):
                return x.n_bins + (1 / 3)

            def lower_bound(self):
                return 1 / 3

            def upper_bound(self):
                return float("inf")

            def is_always_integer(self):
                return False

            def __str__(self):
                return "thirdBins"
        class ExcessBins(Objective):
            """Bins beyond the lower bound: value and bounds can be 0."""

            def __init__(self, instance):
                super().__init__()
                self.lb = instance.lower_bound_bins
                self.n = instance.n_items

            def evaluate(self, x):
                return int(x.n_bins - self.lb)

            def lower_bound(self):
                return 0

            def upper_bound(self):
                return int(self.n - self.lb)

            def is_always_integer(self):
                return True

            def __str__(self):
                return "excessBins"
        _TAB["float"] = tuple(PR.DEFAULT_OBJECTIVES) + (ThirdBins,
                                                        ExcessBins)
    return _TAB["float"]


def spec_key(s):
    return tuple(sorted((k, tuple(v) if isinstance(v, list) else v)
                        for k, v in s.items()))


def make_record(spec):
    """A PackingResult from a real packing and a moptipy EndResult."""
    from moptipy.evaluation.end_results import EndResult
    from moptipyapps.binpacking2d import packing_result as PR
    tw = table_world()
    key = spec_key(spec)
    if key in tw["recs"]:
        return tw["recs"][key]
    inst, pks = tw["world"][spec["instance"]]
    pk = pks[spec["packing"]]
    run = spec.get("run") or RUN[spec["packing"]]
    objs = objective_set(spec.get("objset"))
    pkey = (spec["instance"], spec["packing"], spec.get("objset"))
    if pkey not in tw["cache"]:
        er0 = EndResult("x", inst.name, "binCount", None, 1, pk.n_bins, 1, 0,
                        1, 0, None, None, None)
        tw["cache"][pkey] = PR.from_packing_and_end_result(er0, pk, objs)
    probe = tw["cache"][pkey]
    obj = spec["objective"]
    goal = spec["goal"]
    if goal == "lb":
        goal = probe.objective_bounds[f"{obj}.lowerBound"]
    er = EndResult(spec["algorithm"], inst.name, obj, spec["encoding"],
                   spec["seed"], probe.objectives[obj], run[0], run[1],
                   run[2], run[3], goal, spec["max_fes"],
                   spec["max_time_millis"])
    rec = PR.from_packing_and_end_result(er, pk, objs)
    tw["recs"][key] = rec
    return rec


def record_self_check(spec):
    """The original record agrees with its instance and packing."""
    tw = table_world()
    inst, pks = tw["world"][spec["instance"]]
    pk = pks[spec["packing"]]
    rec = make_record(spec)
    probs = []
    want = {"n_items": inst.n_items,
            "n_different_items": inst.n_different_items,
            "bin_width": inst.bin_width, "bin_height": inst.bin_height}
    for k, v in want.items():
        if R.plain(getattr(rec, k)) != ("int", v):
            probs.append((k, getattr(rec, k), v))
    if sorted(rec.bin_bounds) != ["bins.lowerBound", "bins.lowerBound.damv",
                                  "bins.lowerBound.geometric"]:
        probs.append(("bin_bounds keys", sorted(rec.bin_bounds), "3 keys"))
    elif rec.bin_bounds["bins.lowerBound"] != inst.lower_bound_bins:
        probs.append(("bins.lowerBound", rec.bin_bounds["bins.lowerBound"],
                      inst.lower_bound_bins))
    elif rec.bin_bounds["bins.lowerBound.geometric"] != \
            -(-inst.total_item_area // (inst.bin_width * inst.bin_height)):
        probs.append(("geometric bound",
                      rec.bin_bounds["bins.lowerBound.geometric"], "ceil"))
    if rec.objectives.get("binCount") != pk.n_bins:
        probs.append(("binCount", rec.objectives.get("binCount"),
                      pk.n_bins))
    nobj = len(objective_set(spec.get("objset")))
    if len(rec.objectives) != nobj or len(rec.objective_bounds) != 2 * nobj:
        probs.append(("objectives", len(rec.objectives), nobj))
    for o, v in rec.objectives.items():
        lo = rec.objective_bounds.get(f"{o}.lowerBound")
        hi = rec.objective_bounds.get(f"{o}.upperBound")
        if lo is None or hi is None or not lo <= v <= hi:
            probs.append((o, v, (lo, hi)))
    return probs


def match(orig_plain, back_plain):
    """Pair each original with the parsed record that differs least."""
    left = list(range(len(back_plain)))
    pairs = []
    for o in orig_plain:
        if not left:
            pairs.append((o, None, [("", "length", "record", "missing")]))
            continue
        best = min(left, key=lambda j: len(R.differences(o, back_plain[j])))
        left.remove(best)
        pairs.append((o, back_plain[best],
                      R.differences(o, back_plain[best])))
    return pairs, left


def diff_class(path, kind, a, b):
    """Input class of a difference (for the signature)."""
    if kind == "keys" and isinstance(a, list) and isinstance(b, list):
        if any(k.startswith("bins.lowerBound.") for k in a) and not any(
                k.startswith("bins.lowerBound.") for k in b):
            return "keys lose the bins.lowerBound scope"
        return "keys differ"
    return {"value": "value differs", "type": "number type differs",
            "class": "class differs", "length": "length differs",
            "keys": "keys differ"}[kind]


def data_lines(text):
    return [ln for ln in text.splitlines() if ln and not ln.startswith("#")]


def check_table(specs, what, bad: Bad, counters):
    """One table of records: results CSV and statistics CSV."""
    from moptipyapps.binpacking2d import packing_result as PR
    from moptipyapps.binpacking2d import packing_statistics as PS
    recs = [make_record(s) for s in specs]
    rep = {"kind": "table", "records": specs}
    desc = f"table of {len(specs)} record(s) {short(specs, 420)}"
    path = tmp_file("tab")
    # ---- results
    if what in ("both", "results"):
        try:
            with quiet():
                PR.to_csv(recs, path)
        except Exception as e:  # noqa
            bad.add("results_csv|to_csv raises",
                    f"{desc}: {type(e).__name__}: {short(e, 200)}", rep)
            return
        with open(path) as f:
            text = f.read()
        counters["results_tables"] += 1
        counters["headers"].add(hash(data_lines(text)[0]))
        back = None
        try:
            with quiet():
                back = list(PR.from_csv(path))
        except Exception as e:  # noqa
            bad.add("results_csv|from_csv raises on to_csv's own file",
                    f"{desc}: {type(e).__name__}: {short(e, 200)}", rep)
        if back is not None:
            op = [R.plain(r) for r in recs]
            bp = [R.plain(r) for r in back]
            if len(bp) != len(op) or len(data_lines(text)) != 1 + len(op):
                bad.add("results_csv|number of records differs",
                        f"{desc}: wrote {len(op)}, file has "
                        f"{len(data_lines(text)) - 1} rows, read {len(bp)}",
                        rep)
            pairs, _ = match(op, bp)
            clean = True
            for (_, _, dfs) in pairs:
                for (p, kind, a, b) in dfs:
                    clean = False
                    bad.add(
                        f"results_csv|{R.top_field(p)}|"
                        f"{diff_class(p, kind, a, b)}",
                        f"{desc}: after to_csv/from_csv {p or 'record'}: "
                        f"{short(a, 160)} became {short(b, 160)}", rep)
            with quiet():
                PR.to_csv(back, path)
            with open(path) as f:
                t2 = f.read()
            if t2 != text:
                l1, l2 = text.splitlines(), t2.splitlines()
                k = next((i for i in range(min(len(l1), len(l2)))
                          if l1[i] != l2[i]), min(len(l1), len(l2)))
                bad.add("results_csv|second write differs"
                        + ("" if clean else " (objects differ)"),
                        f"{desc}: line {k + 1} was "
                        f"{short(l1[k] if k < len(l1) else '', 200)!r} and is"
                        f" {short(l2[k] if k < len(l2) else '', 200)!r}",
                        rep)
    # ---- statistics
    if what in ("both", "statistics"):
        stats = []
        try:
            PS.from_packing_results(recs, stats.append)
        except (ValueError, TypeError):
            counters["statistics_rejected"] += 1
            return
        counters["statistics_tables"] += 1
        counters["groups"] += len(stats)
        counters["group_sizes"].update(s.end_statistics.n for s in stats)
        try:
            with quiet():
                PS.to_csv(stats, path)
        except Exception as e:  # noqa
            bad.add("statistics_csv|to_csv raises",
                    f"{desc} -> {len(stats)} statistics record(s): "
                    f"{type(e).__name__}: {short(e, 200)}", rep)
            return
        with open(path) as f:
            text = f.read()
        counters["headers"].add(hash(data_lines(text)[0]))
        mixed = len({s["goal"] is None for s in specs}) > 1
        try:
            with quiet():
                back = list(PS.from_csv(path))
        except Exception as e:  # noqa
            if mixed and "'None'" in str(e):
                sig = ("statistics_csv|from_csv raises|successN written as "
                       "'None' when only some groups have a goal")
            else:
                sig = "statistics_csv|from_csv raises on to_csv's own file"
            bad.add(sig, f"{desc} -> {len(stats)} statistics record(s): "
                         f"{type(e).__name__}: {short(e, 200)}", rep)
            return
        op = [R.plain(r) for r in stats]
        bp = [R.plain(r) for r in back]
        for r in op:
            R.compact_uniform(r)
        for r in bp:
            counters["expanded_uniform_fields"] += R.compact_uniform(r)
        if len(bp) != len(op) or len(data_lines(text)) != 1 + len(op):
            bad.add("statistics_csv|number of records differs",
                    f"{desc}: wrote {len(op)}, file has "
                    f"{len(data_lines(text)) - 1} rows, read {len(bp)}", rep)
        pairs, _ = match(op, bp)
        clean = True
        for (_, _, dfs) in pairs:
            for (p, kind, a, b) in dfs:
                clean = False
                bad.add(
                    f"statistics_csv|{R.top_field(p)}|"
                    f"{diff_class(p, kind, a, b)}",
                    f"{desc} -> {len(stats)} statistics record(s): after "
                    f"to_csv/from_csv {p or 'record'}: {short(a, 160)} "
                    f"became {short(b, 160)}", rep)
        with quiet():
            PS.to_csv(back, path)
        with open(path) as f:
            t2 = f.read()
        if t2 != text:
            l1, l2 = text.splitlines(), t2.splitlines()
            k = next((i for i in range(min(len(l1), len(l2)))
                      if l1[i] != l2[i]), min(len(l1), len(l2)))
            bad.add("statistics_csv|second write differs"
                    + ("" if clean else " (objects differ)"),
                    f"{desc}: line {k + 1} was "
                    f"{short(l1[k] if k < len(l1) else '', 200)!r} and is "
                    f"{short(l2[k] if k < len(l2) else '', 200)!r}", rep)


def new_counters():
    import collections
    return {"results_tables": 0, "statistics_tables": 0,
            "statistics_rejected": 0, "groups": 0, "headers": set(),
            "expanded_uniform_fields": 0,
            "group_sizes": collections.Counter()}


def _table_job(a):
    """Tables = index tuples into an alphabet, a contiguous rank range."""
    alpha_name, size, lo, hi, what = a
    alpha = ALPHABETS[alpha_name]()
    bad = Bad()
    cn = new_counters()
    it = itertools.islice(itertools.combinations(range(len(alpha)), size),
                          lo, hi)
    for k, combo in enumerate(it):
        bad.rank = (size, list(ALPHABETS).index(alpha_name), lo + k)
        check_table([alpha[i] for i in combo], what, bad, cn)
    return cn, bad.items


def _subset_job(a):
    """Every subset (bit mask range) of one setup's records."""
    lo, hi = a
    alpha = one_setup_specs()
    bad = Bad()
    cn = new_counters()
    for mask in range(lo, hi):
        specs = [alpha[i] for i in range(len(alpha)) if mask >> i & 1]
        bad.rank = (len(specs), len(ALPHABETS), mask)
        check_table(specs, "statistics", bad, cn)
    return cn, bad.items


def one_setup_specs():
    return [s for s in base_specs()
            if s["algorithm"] == "a1" and s["instance"] == "ib"
            and s["objective"] == "binCountAndLastSmall"
            and s["encoding"] == "ibf1"]


def mixed_specs():
    """Boundary records plus a few base ones (for 1- and 2-tables)."""
    base = base_specs()
    return boundary_specs() + [base[0], base[-1], base[len(base) // 2]]


def seven_objective_specs():
    """One record per optimised objective x instance x goal."""
    names = ["binCount", "binCountAndLastEmpty", "binCountAndEmpty",
             "binCountAndLastSmall", "binCountAndSmall",
             "binCountAndLastSkyline", "binCountAndLowestSkyline"]
    return [{"algorithm": "a1", "instance": i, "objective": o,
             "encoding": "ibf1", "max_fes": 100, "max_time_millis": None,
             "goal": g, "seed": sd, "packing": sd}
            for i in TABLE_INSTANCES for o in names for g in GOALS
            for sd in SEEDS]


def base_ib_specs():
    return [s for s in base_specs() if s["instance"] == "ib"]


def last_varies_specs():
    """Runs whose 'last bin' objectives differ while the others agree."""
    return [{"algorithm": a, "instance": i, "objective": o, "encoding": None,
             "max_fes": None, "max_time_millis": None, "goal": g,
             "seed": sd, "packing": sd}
            for i in TABLE_INSTANCES for a in ("a1", "a2")
            for o in ("binCount", "binCountAndLastSmall")
            for g in (None, "lb") for sd in (2, 3)]


ALPHABETS = {"lastvaries": last_varies_specs,
             "base": base_specs, "mixed": mixed_specs,
             "objectives": seven_objective_specs, "base_ib": base_ib_specs,
             "floats": float_specs}


def comb(n, k):
    from math import comb as c
    return c(n, k)


def table_jobs(ctx, alpha_name, size, what="both", per=400):
    n = len(ALPHABETS[alpha_name]())
    total = comb(n, size)
    nch = max(1, min(ctx.jobs * 8, total // per))
    b = [total * i // nch for i in range(nch + 1)]
    return total, [(alpha_name, size, b[i], b[i + 1], what)
                   for i in range(nch) if b[i] < b[i + 1]]


def merge_counters(outs, found):
    tot = new_counters()
    for cn, items in outs:
        for k, v in cn.items():
            if isinstance(v, set):
                tot[k] |= v
            elif isinstance(v, dict):
                tot[k].update(v)
            else:
                tot[k] += v
        keep_smallest(found, items)
    return tot


def part_tables(ctx: Ctx, found):
    tw = table_world()
    # originals agree with their instance / packing (once per record)
    bad = Bad()
    nrec = 0
    for name, fn in ALPHABETS.items():
        for s in fn():
            for (k, got, exp) in record_self_check(s):
                bad.add(f"from_packing_and_end_result|{k} wrong",
                        f"record {s}: {k} = {got}, expected {exp}",
                        {"kind": "record", "spec": s})
            nrec += 1
    bad.merge_into(found)
    bb = {nm: dict(make_record(next(s for s in base_specs()
                                    if s["instance"] == nm)).bin_bounds)
          for nm in tw["world"]}
    ctx.part("csv_record_alphabet", records=len(base_specs()),
             boundary_records=len(boundary_specs()),
             seven_objective_records=len(seven_objective_specs()),
             real_valued_objective_records=len(float_specs()),
             self_checked=nrec, bin_bounds=bb,
             factors={"algorithm": ALGOS, "objective": OBJS,
                      "encoding": ENCS, "max_fes": MAX_FES,
                      "max_time_millis": MAX_MS, "goal_f": GOALS,
                      "seed": SEEDS, "instance": list(TABLE_INSTANCES)})
    plan = [("base", 1, "both"), ("base", 2, "both"), ("mixed", 1, "both"),
            ("mixed", 2, "both"), ("objectives", 1, "both"),
            ("objectives", 2, "both"), ("floats", 1, "both"),
            ("floats", 2, "both"), ("lastvaries", 1, "both"),
            ("lastvaries", 2, "both")]
    if not ctx.quick:
        plan += [("mixed", 3, "both"), ("floats", 3, "both"),
                 ("base", 3, "results"),
                 ("base_ib", 3, "statistics")]
        ctx.cap("statistics CSV of 3-record tables: only the tables over "
                "the 128 records of instance ib (341376 of 2763520); the "
                "results CSV is checked for all 2763520 tables")
    total = 0
    headers = 0
    for (alpha, size, what) in plan:
        tot, jobs = table_jobs(ctx, alpha, size, what)
        cn = merge_counters(pmap(_table_job, jobs, ctx.jobs), found)
        ctx.part(f"csv_tables_{alpha}_{size}_records_{what}", tables=tot,
                 results_files=cn["results_tables"],
                 statistics_files=cn["statistics_tables"],
                 statistics_groups=cn["groups"],
                 group_sizes=dict(sorted(cn["group_sizes"].items())),
                 rejected_by_from_packing_results=cn["statistics_rejected"],
                 uniform_budget_or_goal_read_back_as_sample_statistics=cn[
                     "expanded_uniform_fields"],
                 distinct_header_lines=len(cn["headers"]))
        ctx.log(f"csv tables {alpha} x {size}: {tot} tables, "
                f"{len(cn['headers'])} distinct header lines")
        total += 2 * cn["results_tables"] + 2 * cn["statistics_tables"]
        headers += len(cn["headers"])
    if ctx.quick:
        ctx.cap("CSV tables with 3 records are enumerated in the thorough "
                "tier only")
        ctx.cap("subsets of one setup's 16 records (statistics groups of "
                "size > 2) are enumerated in the thorough tier only")
    else:
        n = len(one_setup_specs())
        top = 1 << n
        nch = ctx.jobs * 8
        b = [1 + (top - 1) * i // nch for i in range(nch + 1)]
        cn = merge_counters(pmap(_subset_job, [
            (b[i], b[i + 1]) for i in range(nch) if b[i] < b[i + 1]],
            ctx.jobs), found)
        ctx.part("csv_statistics_all_subsets_of_one_setup", records=n,
                 tables=top - 1, statistics_files=cn["statistics_tables"],
                 group_sizes=dict(sorted(cn["group_sizes"].items())),
                 rejected_by_from_packing_results=cn["statistics_rejected"],
                 distinct_header_lines=len(cn["headers"]))
        total += 2 * cn["statistics_tables"]
        headers += len(cn["headers"])
    return total, headers


# --------------------------------------------------------------------------
# (c) logs -> results -> CSV
# --------------------------------------------------------------------------
LOG_INSTANCES = ("asqas03", "asqas08", "a42")


def run_logs(base, n_seeds):
    """Real runs with log files; returns {(algo, inst, seed): record}."""
    from moptipy.algorithms.random_sampling import RandomSampling
    from moptipy.algorithms.so.rls import RLS
    from moptipy.api.execution import Execution
    from moptipy.evaluation.end_results import EndResult
    from moptipy.operators.signed_permutations.op0_shuffle_and_flip import (
        Op0ShuffleAndFlip,
    )
    from moptipy.operators.signed_permutations.op1_swap_2_or_flip import (
        Op1Swap2OrFlip,
    )
    from moptipy.spaces.signed_permutations import SignedPermutations
    from moptipyapps.binpacking2d import packing_result as PR
    from moptipyapps.binpacking2d.encodings.ibl_encoding_1 import (
        ImprovedBottomLeftEncoding1,
    )
    from moptipyapps.binpacking2d.encodings.ibl_encoding_2 import (
        ImprovedBottomLeftEncoding2,
    )
    from moptipyapps.binpacking2d.instance import Instance
    from moptipyapps.binpacking2d.objectives.bin_count_and_last_empty import (
        BinCountAndLastEmpty,
    )
    from moptipyapps.binpacking2d.objectives.bin_count_and_last_small import (
        BinCountAndLastSmall,
    )
    from moptipyapps.binpacking2d.packing_space import PackingSpace
    expected = {}
    for nm in LOG_INSTANCES:
        inst = Instance.from_resource(nm)
        ss = SignedPermutations(inst.get_standard_item_sequence())
        sp = PackingSpace(inst)
        setups = [
            (RLS(Op0ShuffleAndFlip(ss), Op1Swap2OrFlip()),
             ImprovedBottomLeftEncoding2(inst), BinCountAndLastEmpty(inst),
             12),
            (RandomSampling(Op0ShuffleAndFlip(ss)),
             ImprovedBottomLeftEncoding1(inst), BinCountAndLastSmall(inst),
             None)]
        for (algo, enc, obj, mf) in setups:
            for seed in range(1, n_seeds + 1):
                seed = seed * 1000003
                d = os.path.join(base, str(algo), nm)
                os.makedirs(d, exist_ok=True)
                path = os.path.join(d, f"{algo}_{nm}_{hex(seed)}.txt")
                ex = Execution().set_search_space(ss) \
                    .set_solution_space(sp).set_encoding(enc) \
                    .set_algorithm(algo).set_objective(obj) \
                    .set_rand_seed(seed).set_log_file(path)
                if mf is None:
                    ex.set_max_fes(7)
                    ex.set_goal_f(obj.lower_bound() + 1)
                else:
                    ex.set_max_fes(mf)
                with quiet(), ex.execute() as proc:
                    y = sp.create()
                    proc.get_copy_of_best_y(y)
                    er = EndResult(
                        str(algo), nm, str(obj), str(enc), seed,
                        proc.get_best_f(), proc.get_last_improvement_fe(),
                        0, proc.get_consumed_fes(), 0, None, None, None)
                expected[(str(algo), nm, seed)] = (
                    PR.from_packing_and_end_result(er, y),
                    np.array(y, np.int64))
    return expected


def part_logs(ctx: Ctx, found):
    from moptipyapps.binpacking2d import packing_result as PR
    from moptipyapps.binpacking2d.packing import Packing
    base = os.path.join(tmp_dir(), "logs")
    shutil.rmtree(base, ignore_errors=True)
    os.makedirs(base)
    expected = run_logs(base, 2 if ctx.quick else 4)
    bad = Bad()
    rep = {"kind": "logs", "seeds": 2 if ctx.quick else 4}
    got = []
    with quiet():
        PR.from_logs(base, got.append)
    if len(got) != len(expected):
        bad.add("from_logs|number of records differs",
                f"{len(expected)} runs logged, {len(got)} records", rep)
    cmp_er = ("algorithm", "instance", "objective", "encoding", "rand_seed",
              "best_f", "last_improvement_fe", "total_fes")
    seen = 0
    for r in got:
        e = r.end_result
        key = (e.algorithm, e.instance, e.rand_seed)
        if key not in expected:
            bad.add("from_logs|record of an unknown run",
                    f"{key} not among the runs", rep)
            continue
        seen += 1
        exp, mat = expected[key]
        a, b = R.plain(exp), R.plain(r)
        for k in list(a["end_result"]):
            if k not in cmp_er and k != "__class__":
                a["end_result"].pop(k)
                b["end_result"].pop(k, None)
        for (p, kind, x, y) in R.differences(a, b):
            bad.add(f"from_logs|{R.top_field(p)}|"
                    f"{diff_class(p, kind, x, y)}",
                    f"run {key}: record rebuilt from the log file differs "
                    f"from the record of the in-memory result at {p}: "
                    f"{short(x, 160)} vs {short(y, 160)}", rep)
        d = os.path.join(base, e.algorithm, e.instance)
        f = os.path.join(d, f"{e.algorithm}_{e.instance}_"
                            f"{hex(e.rand_seed)}.txt")
        with quiet():
            pk = Packing.from_log(f)
        if not np.array_equal(np.asarray(pk, np.int64), mat) \
                or pk.n_bins != int(mat[:, 1].max()):
            bad.add("from_logs|packing in the log differs from the result",
                    f"run {key}: {np.asarray(pk).tolist()} vs "
                    f"{mat.tolist()}", rep)
    bad.merge_into(found)
    # the records read from logs (budgets, goals, measured times) -> CSV
    cn = new_counters()
    b2 = Bad()
    if got:
        _check_objects(got, b2, cn, rep)
    b2.merge_into(found)
    ctx.part("logs_to_results_to_csv", runs=len(expected), records=len(got),
             matched=seen, instances=list(LOG_INSTANCES),
             statistics_groups=cn["groups"])
    return 2 * len(got) + 4, len(got)


def _check_objects(recs, bad, cn, rep):
    """check_table for ready-made records (no specs)."""
    tw = table_world()
    specs = []
    for i, r in enumerate(recs):
        s = {"object": i, "goal": r.end_result.goal_f}
        tw["recs"][spec_key(s)] = r
        specs.append(s)
    inner = Bad()
    check_table(specs, "both", inner, cn)
    for sig, v in inner.items.items():
        bad.add("from_logs->" + sig, v[0], rep)


# --------------------------------------------------------------------------
# replay / driver
# --------------------------------------------------------------------------
def run_case(rep: dict) -> dict:
    """Re-run one case; returns {signature: (text, rep)} of what fails."""
    kind = rep["kind"]
    bad = Bad()
    if kind == "instance":
        check_instance(rep["name"], rep["W"], rep["H"], rep["rows"], bad,
                       new_stats())
    elif kind == "packing":
        from moptipyapps.binpacking2d.instance import Instance
        from moptipyapps.binpacking2d.packing import Packing
        from moptipyapps.binpacking2d.packing_space import PackingSpace
        if "resource" in rep:
            inst = Instance.from_resource(rep["resource"])
            ri = {k: rep[k] for k in ("resource", "enc", "x")}
            what = f"shipped instance {rep['resource']} decoder {rep['enc']}"
        else:
            inst = C.make_instance(rep["W"], rep["H"], rep["rows"],
                                   rep.get("name", "v"))
            ri = {k: rep[k] for k in ("W", "H", "rows", "name")}
            what = f"bin={rep['W']}x{rep['H']} items={rep['rows']}"
        check_packing(PackingSpace(inst), inst, Packing(inst),
                      rep["matrix"], bad, rep["via"], what, ri)
    elif kind == "plan":
        from moptipyapps.ttp.game_plan import GamePlan
        from moptipyapps.ttp.game_plan_space import GamePlanSpace
        if "resource" in rep:
            from moptipyapps.ttp.instance import Instance
            inst = Instance.from_resource(rep["resource"])
            ri = {"resource": rep["resource"]}
        else:
            inst = ttp_instance(rep["n"], rep["rounds"])
            ri = {"n": rep["n"], "rounds": rep["rounds"]}
        check_plan(GamePlanSpace(inst), inst, GamePlan(inst), rep["plan"],
                   bad, ri)
    elif kind == "ordering":
        from moptipyapps.order1d.space import OrderingSpace
        inst = ordering_instance(rep["values"], rep["ntags"])
        check_ordering(OrderingSpace(inst), rep["perm"], bad,
                       {"values": rep["values"], "ntags": rep["ntags"]})
    elif kind == "table":
        check_table(rep["records"], "both", bad, new_counters())
    elif kind == "record":
        for (k, got, exp) in record_self_check(rep["spec"]):
            bad.add(f"from_packing_and_end_result|{k} wrong",
                    f"{k} = {got}, expected {exp}", rep)
    elif kind == "logs":
        found = {}
        fake = Ctx("C19", "quick" if rep.get("seeds", 2) == 2
                   else "thorough", 0, 1)
        part_logs(fake, found)
        return found
    else:
        raise HarnessError(f"unknown replay kind {kind!r}")
    return bad.items


def real_samples():
    """A few cases as they were actually executed (for the evidence file)."""
    from moptipyapps.binpacking2d import packing_result as PR
    from moptipyapps.binpacking2d.instance import Instance
    from moptipyapps.ttp.game_plan import GamePlan
    from moptipyapps.ttp.game_plan_space import GamePlanSpace
    inst = Instance("x1", 9, 10, [[9, 1, 11], [10, 9, 1]])
    text = inst.to_compact_str()
    yield {"instance_text": text,
           "parsed": instance_view(Instance.from_compact_str(text))}
    ti = ttp_instance(2, 2)
    sp = GamePlanSpace(ti)
    gp = GamePlan(ti)
    gp[:, :] = [[2, -1], [-2, 1]]
    text = sp.to_str(gp)
    yield {"plan_text": text, "parsed": np.asarray(sp.from_str(text)).tolist(),
           "dtype": str(sp.from_str(text).dtype)}
    specs = [base_specs()[0], base_specs()[-1]]
    path = tmp_file("sample")
    with quiet():
        PR.to_csv([make_record(x) for x in specs], path)
        back = list(PR.from_csv(path))
    with open(path) as f:
        lines = data_lines(f.read())
    yield {"table": specs, "csv_rows": lines,
           "parsed_bin_bounds": [dict(b.bin_bounds) for b in back],
           "parsed_end_results": [repr(b.end_result) for b in back]}


def run(ctx: Ctx) -> None:
    found: dict = {}
    try:
        tmp_dir()
        total = distinct = 0
        only = os.environ.get("VERIF_C19_PARTS")  # development aid
        for part in (part_instances, part_game_plans, part_orderings,
                     part_packings, part_tables, part_logs):
            if only and part.__name__[5:] not in only.split(","):
                continue
            try:
                t, d = part(ctx, found)
            except Exception:
                # report what the finished parts established (the core
                # then notes that the exploration stopped early)
                if found:
                    report_all(ctx, found)
                raise
            total += t
            distinct += d
            ctx.log(f"{part.__name__}: {t} reader executions so far "
                    f"{total}; violations so far {len(found)}")
        report_all(ctx, found)
        try:
            for smp in real_samples():
                ctx.sample(smp)
        except Exception as e:  # noqa (a broken tree: samples are optional)
            ctx.log(f"samples not available: {type(e).__name__}: {e}")
    finally:
        drop_tmp()
    ctx.add("evaluations", total)
    ctx.add("traces_validated_against_impl", total)
    ctx.add("states", distinct)
    ctx.add("transitions", total)
    ctx.cov["distinct_nontrivial"] = distinct
    ctx.cov["rule"] = (
        "every member of each part's alphabet (see parts) is written by the "
        "real writer, parsed by the real reader, compared field by field "
        "and written again; distinct_nontrivial = number of distinct texts "
        "(distinct header lines for CSV tables) that were parsed back, "
        "counted per shard of disjoint inputs and summed")
    ctx.assume("bins up to 4x4 (5x5 thorough) with <= 3 items (4 items up "
               "to 3x3 thorough) for instances; packings of the specs listed"
               " in parts; 2 and 4 teams exhaustively, 4..10 and shipped "
               "team counts through decoder outputs; permutations of length "
               "<= 6 exhaustively")
    ctx.assume("boundary instances whose construction would need more than "
               "6*10^4 square-visits in the lower bound routine are "
               "skipped (the constructor materialises every cut square)")
    ctx.assume("CSV values: the record alphabet listed under parts; "
               "the seven shipped objectives are integer valued, real "
               "values enter through one synthetic objective (bins + 1/3, "
               "upper bound inf) and through goal_f; measured run times of "
               "records read from logs are not compared with the in-memory "
               "run")
    ctx.assume("goal_f / max_fes / max_time_millis of end statistics: a "
               "bare number and sample statistics with minimum == maximum "
               "are the same data (moptipy's compact form)")


def replay(ctx: Ctx, rep: dict) -> bool:
    try:
        tmp_dir()
        found = run_case(rep)
    finally:
        drop_tmp()
    for sig, v in found.items():
        print(f"{sig}: {v[0]}")
    return not found
