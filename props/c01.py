"""C01: every decoded bin packing is physically feasible."""
import numpy as np

from mc.core import Ctx
from models import packing as P
from props import pack_common as C


def specs(ctx):
    s = []
    if ctx.quick:
        for W in range(1, 5):
            for H in range(1, 5):
                s.append((W, H, 1, 3))
        for W in range(1, 4):
            for H in range(1, 4):
                s.append((W, H, 4, 4))
        s += [(5, 5, 1, 2), (5, 3, 1, 3), (3, 5, 1, 3), (4, 4, 4, 4)]
    else:
        for W in range(1, 6):
            for H in range(1, 6):
                s.append((W, H, 1, 3))
        for W in range(1, 5):
            for H in range(1, 5):
                s.append((W, H, 4, 4))
        for W in range(1, 4):
            for H in range(1, 4):
                s.append((W, H, 5, 5))
        s += [(6, 6, 1, 3), (6, 4, 1, 3), (4, 6, 1, 3), (5, 4, 4, 4),
              (4, 5, 4, 4), (7, 3, 1, 3), (3, 7, 1, 3), (8, 8, 1, 2),
              (4, 3, 5, 5), (3, 4, 5, 5), (4, 4, 5, 5), (5, 3, 5, 5),
              (3, 5, 5, 5), (5, 4, 5, 5), (4, 5, 5, 5), (2, 2, 6, 6),
              (3, 2, 6, 6), (2, 3, 6, 6)]
    return s


def check_public(ctx, inst, enc, x, what):
    """One decoding through the public API + interval oracle."""
    rows, nb, dest = C.public_decode(inst, enc, x, poison=-1)
    code = P.feasible_intervals(rows, np.asarray(inst).tolist(),
                                inst.bin_width, inst.bin_height, nb)
    ok = code == P.OK and dest.dtype == inst.dtype \
        and nb >= inst.lower_bound_bins
    if not ok:
        report(ctx, inst.bin_width, inst.bin_height,
               np.asarray(inst).tolist(), x, enc, code,
               f"{what}: dtype={dest.dtype} n_bins={nb} "
               f"lb={inst.lower_bound_bins} rows={rows.tolist()[:6]}")
    return ok


def report(ctx, W, H, rows, x, enc, code, extra=""):
    rows = [[int(v) for v in r] for r in rows]
    x = [int(v) for v in x]
    sig = f"ibf{enc}|{P.CODE_NAMES.get(code, code)}"
    ctx.violation(
        sig, f"bin {W}x{H} items(w,h,rep)={rows} signed permutation "
        f"(prefix) {x} encoding {enc}: {P.CODE_NAMES.get(code, code)} "
        f"{extra}",
        {"W": W, "H": H, "rows": rows, "x": x, "enc": enc})


def edge_families():
    """Instances whose storage dtype sits at / next to a type limit."""
    fams = []
    for lim in (127, 32767, 2 ** 31 - 1):
        for delta in (-1, 0, 1):
            tot = lim + delta  # = max_dim + max_size + 1
            # thin bin, flat items: W + w + 1 == tot
            for w in (1, 2, tot // 2):
                W = tot - 1 - w
                if W < w or W < 1:
                    continue
                fams.append((W, 1, [[w, 1, 2], [1, 1, 1]]))
                fams.append((1, W, [[1, w, 2], [1, 1, 1]]))
                if w > 1 and lim <= 32767:
                    fams.append((W, 2, [[w, 2, 1], [w, 1, 2], [1, 2, 1]]))
    # each governing quantity on its own: bin side near the limit with small
    # and with bin-sized items (the decoder's start position is H + h)
    for lim in (127, 32767, 2 ** 31 - 1):
        for side in (lim // 2, lim // 2 + 1, lim - 2, lim - 1, lim, lim + 1):
            for it in (1, 2, side // 2, side - 1, side):
                if it < 1:
                    continue
                fams.append((1, side, [[1, it, 1], [1, 1, 1]]))
                fams.append((side, 1, [[it, 1, 1], [1, 1, 1]]))
    # number of items at the int8 limit: n_items + 1 in {127, 128, 129}
    for n in (126, 127, 128):
        fams.append((3, 2, [[1, 1, n - 1], [2, 1, 1]]))
        fams.append((1, 1, [[1, 1, n]]))
    return fams


def edge_perms(inst):
    seq = inst.get_standard_item_sequence()
    n = len(seq)
    yield list(seq)
    yield list(reversed(seq))
    yield [-v for v in seq]
    yield [v if i % 2 else -v for i, v in enumerate(seq)]
    yield [-v if i % 2 else v for i, v in enumerate(reversed(seq))]
    if n <= 6:
        import itertools
        seen = set()
        for p in itertools.permutations(seq):
            if p in seen:
                continue
            seen.add(p)
            for sg in itertools.product((1, -1), repeat=n):
                yield [a * b for a, b in zip(p, sg)]


def history_job(a):
    """
    Histories on ONE encoder object and ONE destination packing.

    All sequences [decode x_a, overwrite the destination, decode x_b] (and
    [decode x_a, decode x_b]) for every pair of signed permutations of a
    small instance; the overwrite is fill(-1), the rows of another decoding
    with all bin ids 1, a decoding by the other encoding, or
    PackingSpace.copy from another packing. After every decode the
    destination must be a feasible packing (cell oracle).
    """
    from moptipyapps.binpacking2d.encodings.ibl_encoding_1 import (
        ImprovedBottomLeftEncoding1,
    )
    from moptipyapps.binpacking2d.encodings.ibl_encoding_2 import (
        ImprovedBottomLeftEncoding2,
    )
    from moptipyapps.binpacking2d.packing import Packing
    from moptipyapps.binpacking2d.packing_space import PackingSpace
    W, H, rows, enc = a
    inst = C.make_instance(W, H, rows)
    rows_inst = np.asarray(inst).tolist()
    cls = ImprovedBottomLeftEncoding1 if enc == 1 \
        else ImprovedBottomLeftEncoding2
    other_cls = ImprovedBottomLeftEncoding2 if enc == 1 \
        else ImprovedBottomLeftEncoding1
    xs = [tuple(x) for x in C.signed_perms(rows)]
    space = PackingSpace(inst)
    try:
        from moptipy.spaces.signed_permutations import SignedPermutations
        xx = SignedPermutations(inst.get_standard_item_sequence()).create()
    except ValueError:
        xx = np.zeros(inst.n_items, inst.dtype)
    src = Packing(inst)
    xx[:] = xs[-1]
    other_cls(inst).decode(xx, src)
    ops = [None, "fill", "rows", "other", "copy"]
    cnt = 0
    for xa in xs:
        for op in ops:
            for xb in xs:
                eo = cls(inst)
                oe = other_cls(inst)
                dest = Packing(inst)
                dest.fill(-1)
                seq = [xa, xb]
                for k, x in enumerate(seq):
                    xx[:] = x
                    eo.decode(xx, dest)
                    cnt += 1
                    code = P.feasible_intervals(
                        np.asarray(dest).tolist(), rows_inst, W, H,
                        dest.n_bins)
                    if code != P.OK:
                        return (W, H, rows, enc, cnt,
                                [list(xa), op, list(xb)][:2 * k + 1],
                                np.asarray(dest).tolist(), code)
                    if k == 0 and op is not None:
                        if op == "fill":
                            dest.fill(-1)
                        elif op == "rows":
                            dest[:, :] = np.asarray(src)
                            dest[:, 1] = 1
                        elif op == "other":
                            xx[:] = xs[len(xs) // 2]
                            oe.decode(xx, dest)
                        else:
                            space.copy(dest, src)
    return (W, H, rows, enc, cnt, None, None, P.OK)


def run(ctx: Ctx) -> None:
    C.drivers()
    r = C.explore_trees(ctx, specs(ctx))
    ctx.add("states", r["nodes"])
    ctx.add("transitions", r["nodes"])
    ctx.add("evaluations", r["nodes"])
    ctx.add("traces_validated_against_impl", r["leaves"])
    ctx.part("prefix_trees", specs=[list(s) for s in specs(ctx)],
             **{k: v for k, v in r.items() if not k.startswith("bad")})
    ctx.log(f"trees: {r['instances']} instances, {r['nodes']} nodes, "
            f"{r['leaves']} leaves, infeasible={r['infeasible']}, "
            f"below_lb={r['below_lb']}, multi-bin leaves="
            f"{r['multi_bin_leaves']}")
    if r["bad01"] is not None:
        W, H, rows, x, enc, code = r["bad01"]
        report(ctx, W, H, rows, x, enc, code, "(kernel, prefix tree)")
    if r["badlb"] is not None:
        W, H, rows, lb, mn = r["badlb"]
        ctx.violation("decoder|fewer bins than the lower bound",
                      f"bin {W}x{H} items={rows}: some decoding uses {mn} "
                      f"bins < lower_bound_bins={lb}",
                      {"W": W, "H": H, "rows": rows, "lb": lb, "min": mn})
    # public API on all leaves of a sub-alphabet (non-square bins matter:
    # the wrapper passes width and height)
    pub = 0
    pub_specs = [(3, 2, 1, 3), (2, 3, 1, 3), (4, 2, 1, 2), (1, 4, 1, 3)]
    if not ctx.quick:
        pub_specs += [(4, 3, 1, 3), (3, 4, 1, 3), (3, 3, 4, 4)]
    for (W, H, kmin, kmax) in pub_specs:
        for rows in C.enum_instances(W, H, kmax, kmin):
            inst = C.make_instance(W, H, rows)
            for x in C.signed_perms(rows):
                for enc in (1, 2):
                    check_public(ctx, inst, enc, x, "public decode")
                    pub += 1
            if ctx.too_many():
                break
    ctx.add("evaluations", pub)
    ctx.add("traces_validated_against_impl", pub)
    ctx.part("public_api_leaves", decodings=pub,
             specs=[list(s) for s in pub_specs])
    ctx.log(f"public API decodings: {pub}")
    # histories on one encoder + one destination (feasibility after reuse)
    hinst = [(2, 2, [[2, 1, 2], [1, 1, 1]]), (3, 3, [[2, 2, 2], [1, 3, 1]]),
             (3, 2, [[2, 1, 1], [1, 2, 1], [1, 1, 1]])]
    if not ctx.quick:
        hinst += [(4, 3, [[3, 2, 1], [2, 2, 1], [1, 1, 1]]),
                  (3, 3, [[2, 1, 2], [1, 2, 1]])]
    from mc.core import pmap
    hout = pmap(history_job, [(W, H, r, e) for (W, H, r) in hinst
                              for e in (1, 2)], ctx.jobs)
    hc = 0
    for (W, H, rows, enc, cnt, hist, got, code) in hout:
        hc += cnt
        if hist is not None:
            ctx.violation(
                f"ibf{enc}|infeasible after reuse of encoder and destination",
                f"bin {W}x{H} items={rows} encoding {enc}: history "
                f"[decode, overwrite, decode] = {hist}: the destination "
                f"then holds {got}: {P.CODE_NAMES[code]}",
                {"W": W, "H": H, "rows": rows, "enc": enc, "history": hist})
    ctx.add("evaluations", hc)
    ctx.add("traces_validated_against_impl", hc)
    ctx.part("histories_one_encoder_one_destination", decodings=hc,
             instances=len(hinst))
    ctx.log(f"histories on one encoder and one destination: {hc} decodings")
    # the instance must hold its own copy of the item matrix
    al = 0
    from moptipyapps.binpacking2d.instance import Instance
    for (W, H, kmin, kmax) in [(3, 2, 1, 3), (2, 3, 1, 2), (4, 4, 1, 2)]:
        for rows in C.enum_instances(W, H, kmax, kmin):
            ref = C.make_instance(W, H, rows)
            for dt in {str(ref.dtype), "int64"}:
                srcm = np.array(rows, dt)
                inst2 = Instance("v", W, H, srcm)
                srcm.fill(1)  # the caller re-uses its buffer
                al += 1
                if np.asarray(inst2).tolist() != rows:
                    ctx.violation(
                        "Instance|stored matrix follows the caller's buffer",
                        f"bin {W}x{H} items={rows} handed over as {dt} array"
                        f" that is overwritten afterwards: the instance now "
                        f"holds {np.asarray(inst2).tolist()}",
                        {"W": W, "H": H, "rows": rows})
                    break
                # the same rows in other legal memory layouts
                base = np.array(rows, dt)
                big = np.zeros((2 * len(rows), 6), dt)
                big[::2, ::2] = base
                for lname, arr in (
                        ("Fortran-ordered array", np.asfortranarray(base)),
                        ("transposed view of a (3, n) array",
                         np.ascontiguousarray(base.T).T),
                        ("strided view", big[::2, ::2]),
                        ("reversed view", base[::-1][::-1])):
                    al += 1
                    try:
                        inst3 = Instance("v", W, H, arr)
                        got3 = np.asarray(inst3).tolist()
                        nit3 = inst3.n_items
                    except (TypeError, ValueError):
                        continue    # refused loudly: nothing is stored
                    except Exception as e:  # noqa
                        got3 = f"{type(e).__name__}: {e}"
                        nit3 = -1
                    if got3 != rows or nit3 != ref.n_items:
                        ctx.violation(
                            "Instance|stored matrix differs from the given "
                            "one|memory layout",
                            f"bin {W}x{H} items={rows} handed over as "
                            f"{lname} ({dt}): the instance holds {got3}, "
                            f"n_items={nit3}", {"W": W, "H": H,
                                                "rows": rows})
                        break
            if ctx.too_many():
                break
    ctx.add("evaluations", al)
    ctx.part("instance_keeps_its_own_copy", constructions=al)
    # storage-type edges
    edge = 0
    dtypes = {}
    rejected = 0
    narrower = 0
    for (W, H, rows) in edge_families():
        try:
            inst = C.make_instance(W, H, rows)
        except (ValueError, TypeError, OverflowError):
            rejected += 1
            continue
        dtypes[str(inst.dtype)] = dtypes.get(str(inst.dtype), 0) + 1
        nit = sum(r[2] for r in rows)
        need = max(max(W, H) + max(max(r[0], r[1]) for r in rows) + 1,
                   nit + 1)
        if np.iinfo(inst.dtype).max < need - 1:
            # narrower than the documented policy: not demanded by the
            # statement as long as every decoding below is feasible
            narrower += 1
        if np.asarray(inst).tolist() != rows or inst.n_items != nit:
            ctx.violation(
                "Instance|stored matrix differs from the given one",
                f"bin {W}x{H} items={rows}: stored "
                f"{np.asarray(inst).tolist()} dtype {inst.dtype}",
                {"W": W, "H": H, "rows": rows})
            continue
        try:
            for x in edge_perms(inst):
                for enc in (1, 2):
                    check_public(ctx, inst, enc, x, "storage edge")
                    edge += 1
        except Exception as e:  # noqa  decoding a valid input must work
            ctx.violation(
                "decoder|raises on a valid input",
                f"bin {W}x{H} items={rows}: {type(e).__name__}: {e}",
                {"W": W, "H": H, "rows": rows})
    ctx.add("evaluations", edge)
    ctx.add("traces_validated_against_impl", edge)
    ctx.part("storage_edges", decodings=edge, dtypes=dtypes,
             families=len(edge_families()), rejected_by_constructor=rejected,
             storage_narrower_than_documented=narrower)
    ctx.log(f"storage edges: {edge} decodings, dtypes {dtypes}")
    ctx.cov["distinct_nontrivial"] = r["multi_bin_leaves"]
    ctx.cov["rule"] = (
        "every signed permutation with repetition of every instance within "
        "the size specs, both encodings, every prefix; non-trivial = leaf "
        "decodings that use more than one bin (measured)")
    inst = C.make_instance(4, 3, [[2, 3, 1], [3, 1, 2]])
    rows, nb, _ = C.public_decode(inst, 2, [2, -1, 2])
    ctx.sample({"bin": [4, 3], "items": [[2, 3, 1], [3, 1, 2]],
                "x": [2, -1, 2], "encoding": 2, "packing": rows.tolist(),
                "n_bins": nb})
    ctx.assume("bins up to 5x5 (6x6/8x8 with <=3/2 items) and <=5 items; "
               "storage edges through thin bins / flat items only")


def replay(ctx: Ctx, rep: dict) -> bool:
    inst = C.make_instance(rep["W"], rep["H"], rep["rows"])
    if "history" in rep:
        r = history_job((rep["W"], rep["H"], rep["rows"], rep["enc"]))
        print(r[5], r[6])
        return r[5] is None
    if "x" not in rep:
        print(rep)
        return False
    x = rep["x"]
    seq = inst.get_standard_item_sequence()
    # complete a prefix to a full permutation
    rest = list(seq)
    for v in x:
        rest.remove(abs(v))
    full = list(x) + rest
    rows, nb, _ = C.public_decode(inst, rep["enc"], full)
    k = len(x)
    sub = rows[:k]
    nbk = int(sub[:, 1].max())
    inst_rows = [[r[0], r[1], 0] for r in np.asarray(inst).tolist()]
    for r in sub:
        if 1 <= r[0] <= len(inst_rows):
            inst_rows[r[0] - 1][2] += 1
    code = P.feasible_intervals(sub, inst_rows, inst.bin_width,
                                inst.bin_height, nbk)
    print(f"x={full} packing={rows.tolist()} n_bins={nb} "
          f"prefix-code={P.CODE_NAMES[code]}")
    code2 = P.feasible_intervals(rows, np.asarray(inst).tolist(),
                                 inst.bin_width, inst.bin_height, nb)
    return code == P.OK and code2 == P.OK
