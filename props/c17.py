"""C17: generated bin packing instances keep the template's size and need."""
import itertools
import math

import numpy as np

from mc.core import Ctx, pmap
from models import fits as F
from models import packing as P
from props import pack_common as C

EPS1 = math.nextafter(1.0, 0.0)          # 1 - ulp
TINY = 5e-324                            # smallest positive double
ALPHA = [0.0, 0.5, -0.5, 1.0, -1.0, EPS1, -EPS1]
ALPHA_T = ALPHA + [TINY, -TINY]
SUB = [0.0, 0.5, -0.5, EPS1, -1.0]


def template_classes(maxside, nmax):
    """
    Templates per (W, H, n_items, min_bins) class + all templates count.

    The decoder reads only these four numbers (and the name) of the space;
    to notice a decoder that starts to depend on anything else, up to three
    templates per class are used: the first, and those with the smallest and
    the largest total item area.
    """
    from moptipyapps.binpacking2d.instgen.instance_space import InstanceSpace
    classes = {}
    total = 0
    for W in range(1, maxside + 1):
        for H in range(1, maxside + 1):
            for rows in C.enum_instances(W, H, nmax, 2):
                inst = C.make_instance(W, H, rows, name="t")
                try:
                    sp = InstanceSpace(inst)
                except ValueError:
                    continue  # template refused loudly (rotated-only item)
                if sp.n_items - sp.min_bins < 1:
                    continue
                total += 1
                key = (W, H, sp.n_items, sp.min_bins)
                a = sp.total_item_area
                c = classes.setdefault(key, {})
                if "first" not in c:
                    c["first"] = (a, rows)
                if "min" not in c or a < c["min"][0]:
                    c["min"] = (a, rows)
                if "max" not in c or a > c["max"][0]:
                    c["max"] = (a, rows)
    out = {}
    for key, c in classes.items():
        seen = []
        for nm in ("first", "min", "max"):
            if c[nm][1] not in seen:
                seen.append(c[nm][1])
        for i, rows in enumerate(seen):
            out[key + (i,)] = rows
    return out, total


#: names of the 1st, 2nd and 3rd template of a class: the generated
#: instances carry the template's name plus "n", whatever that name is
TNAMES = ("t", "un", "n")


def tname(key):
    return TNAMES[key[4] % 3] if len(key) > 4 else "t"


def check_instance(key, rows_t, inst, x, cache, bads):
    """All clauses on one decoded instance."""
    W, H, n, m = key[:4]
    A = W * H
    arr = np.asarray(inst)
    items = []
    for r in arr:
        items += [(int(r[0]), int(r[1]))] * int(r[2])
    sig = None
    detail = None
    if inst.name != tname(key) + "n" or inst.bin_width != W \
            or inst.bin_height != H:
        sig, detail = "decoder|name or bin size differs", (inst.name,
                                                            inst.bin_width,
                                                            inst.bin_height)
    elif inst.n_items != n or len(items) != n:
        sig, detail = "decoder|number of items differs", inst.n_items
    else:
        area = sum(w * h for w, h in items)
        if area != inst.total_item_area:
            sig, detail = "decoder|total area attribute wrong", area
        elif area <= (m - 1) * A:
            sig = "decoder|total area does not require min_bins"
            detail = (area, (m - 1) * A)
        else:
            ms = tuple(sorted(items))
            fit = cache.get(ms)
            if fit is None:
                cert = F.fits(items, m, W, H, want_cert=True)
                fit = cert is not None
                cache[ms] = fit
            if not fit:
                sig = "decoder|items cannot be packed into min_bins"
                detail = ms
            elif inst.lower_bound_bins != m:
                sig = "decoder|lower bound differs from min_bins"
                detail = int(inst.lower_bound_bins)
    if sig is not None:
        k = (len(x) - 2 * (n - m)) // 2
        sig2 = sig + ("|>=2 slack pairs" if k >= 2 else f"|{k} slack pairs")
        bads.append((sig2, key, rows_t, [float(v) for v in x],
                     arr.tolist(), repr(detail)))
    return tuple(sorted(items))


def job(a):
    from moptipyapps.binpacking2d.instgen.inst_decoding import (
        InstanceDecoder,
    )
    from moptipyapps.binpacking2d.instgen.instance_space import InstanceSpace
    key, rows_t, d, alpha, shard, nshards = a
    W, H, n, m = key[:4]
    tmpl = C.make_instance(W, H, rows_t, name=tname(key))
    sp = InstanceSpace(tmpl)
    dec = InstanceDecoder(sp)
    cache = {}
    bads = []
    cnt = 0
    distinct = set()
    y = []
    y2 = []
    first = alpha[shard::nshards] if nshards > 1 else alpha
    buf = np.zeros(d, float)  # one input buffer, overwritten in place
    sbig = np.full(2 * d, 0.25)  # holds the vector as a strided view
    extra = len(key) > 4 and key[4] > 0
    for x0 in first:
        for rest in itertools.product(alpha, repeat=d - 1):
            x = np.array((x0,) + rest, float)
            try:
                # the long-lived decoder sees the reused buffer, a fresh
                # decoder sees another array: results must be equal
                buf[:] = x
                dec.decode(buf, y)
                if extra:
                    y2 = y  # additional templates: one decoding per vector
                else:
                    # ... in another legal memory layout: every second
                    # element of a longer buffer, alternately reversed
                    if cnt % 2:
                        sbig[::2] = x
                        InstanceDecoder(sp).decode(sbig[::2], y2)
                    else:
                        sbig[::2] = x[::-1]
                        InstanceDecoder(sp).decode(sbig[::2][::-1], y2)
            except Exception as e:  # noqa
                bads.append(("decoder|raises", key, rows_t,
                             [float(v) for v in x], [],
                             f"{type(e).__name__}: {e}"))
                continue
            cnt += 1
            i1, i2 = y[0], y2[0]
            if not (np.array_equal(np.asarray(i1), np.asarray(i2))
                    and i1.name == i2.name and i1.dtype == i2.dtype
                    and i1.lower_bound_bins == i2.lower_bound_bins):
                bads.append(("decoder|same vector, different instance", key,
                             rows_t, [float(v) for v in x],
                             np.asarray(i1).tolist(),
                             repr(np.asarray(i2).tolist())))
            try:
                sp.validate(y)
            except (ValueError, TypeError) as e:
                bads.append(("decoder|result rejected by InstanceSpace."
                             "validate", key, rows_t, [float(v) for v in x],
                             np.asarray(i1).tolist(), str(e)))
            distinct.add(check_instance(key, rows_t, i1, x, cache, bads))
            if len(bads) > 8:
                return cnt, len(distinct), bads, sorted(distinct)[:50]
    return cnt, len(distinct), bads, sorted(distinct)


def objective_job(a):
    """Errors / Hardness / ErrorsAndHardness on distinct instances."""
    from moptipyapps.binpacking2d.instgen.errors import Errors
    from moptipyapps.binpacking2d.instgen.errors_and_hardness import (
        ErrorsAndHardness,
    )
    from moptipyapps.binpacking2d.instgen.hardness import Hardness
    from moptipyapps.binpacking2d.instgen.instance_space import InstanceSpace
    key, rows_t, item_sets = a
    W, H, n, m = key[:4]
    tmpl = C.make_instance(W, H, rows_t, name=tname(key))
    sp = InstanceSpace(tmpl)
    bads = []
    err = Errors(sp)
    hard = Hardness(max_fes=16, n_runs=2)
    other = Hardness(max_fes=16, n_runs=3)
    both = ErrorsAndHardness(sp, max_fes=16, n_runs=2)
    cnt = 0
    e0 = err.evaluate(tmpl)
    if e0 != 0:
        bads.append(("Errors|template itself not 0", key, rows_t, [], [],
                     repr(e0)))
    insts = []
    for ms in item_sets:
        rows = []
        for it in ms:
            if rows and rows[-1][:2] == list(it):
                rows[-1][2] += 1
            else:
                rows.append([it[0], it[1], 1])
        insts.append(C.make_instance(W, H, rows, name=tname(key) + "n"))
    prev = None
    for inst in insts:
        vals = {}
        for nm, ob in (("Errors", err), ("Hardness", hard),
                       ("ErrorsAndHardness", both)):
            v = ob.evaluate([inst])
            v2 = ob.evaluate(inst)
            cnt += 2
            vals[nm] = v
            if not (isinstance(v, float) and 0.0 <= v <= 1.0) or v != v2:
                bads.append((f"{nm}|value outside [0,1] or not repeatable",
                             key, rows_t, [], np.asarray(inst).tolist(),
                             repr((v, v2))))
        if prev is not None:
            # evaluate another instance in between (cached seeds), then again
            hard.evaluate(prev)
            v3 = hard.evaluate(inst)
            cnt += 2
            if v3 != vals["Hardness"]:
                bads.append(("Hardness|value changes after evaluating "
                             "another instance", key, rows_t, [],
                             np.asarray(inst).tolist(),
                             repr((vals["Hardness"], v3))))
            fresh = Hardness(max_fes=16, n_runs=2).evaluate(inst)
            cnt += 1
            if fresh != vals["Hardness"]:
                bads.append(("Hardness|differs from a fresh objective", key,
                             rows_t, [], np.asarray(inst).tolist(),
                             repr((vals["Hardness"], fresh))))
            # a second objective with another number of runs is alive and
            # used in between: the first one must not notice
            alt = C.make_instance(W, H, np.asarray(inst).tolist(),
                                  name="zz")
            other.evaluate(alt)     # (the other one moves to a new name)
            w1 = other.evaluate(inst)
            v4 = hard.evaluate(inst)
            hard.evaluate(alt)
            hard.evaluate(inst)
            w2 = other.evaluate(inst)
            cnt += 6
            if v4 != vals["Hardness"] or w1 != w2:
                bads.append(("Hardness|value changes when a second Hardness "
                             "objective (other n_runs) is used in between",
                             key, rows_t, [], np.asarray(inst).tolist(),
                             repr((vals["Hardness"], v4, w1, w2))))
        prev = inst
        if len(bads) > 5:
            break
    return cnt, bads


def all_templates_errors(maxside, nmax):
    """Errors(template) == 0 for every admissible template."""
    from moptipyapps.binpacking2d.instgen.errors import Errors
    from moptipyapps.binpacking2d.instgen.instance_space import InstanceSpace
    bads = []
    cnt = 0
    for W in range(1, maxside + 1):
        for H in range(1, maxside + 1):
            for rows in C.enum_instances(W, H, nmax, 2):
                inst = C.make_instance(W, H, rows, name="t")
                try:
                    sp = InstanceSpace(inst)
                except ValueError:
                    continue
                if sp.n_items - sp.min_bins < 1:
                    continue
                try:
                    v = Errors(sp).evaluate(inst)
                except ValueError as e:
                    v = str(e)
                cnt += 1
                if v != 0:
                    bads.append(("Errors|template itself not 0",
                                 (W, H, sp.n_items, sp.min_bins), rows, [],
                                 [], repr(v)))
                    if len(bads) > 3:
                        return cnt, bads
    return cnt, bads


def report(ctx, b):
    sig, key, rows_t, x, inst_rows, detail = b
    ctx.violation(
        sig, f"template bin {key[0]}x{key[1]} items={rows_t} (n_items="
        f"{key[2]}, min_bins={key[3]}), x={x}: generated items="
        f"{inst_rows}: {sig}: {detail}",
        {"key": list(key), "template": rows_t, "x": x})


def run(ctx: Ctx) -> None:
    quick = ctx.quick
    maxside, nmax = (4, 4) if quick else (5, 4)
    classes, ntemplates = template_classes(maxside, nmax)
    if not quick:
        # two larger templates (the design-time counterexample shape)
        classes[(10, 10, 3, 2, 0)] = [[5, 10, 2], [10, 10, 1]]
        classes[(6, 6, 4, 2, 0)] = [[3, 6, 2], [6, 3, 2]]
    ctx.log(f"{ntemplates} admissible templates in {len(classes)} classes "
            f"(W, H, n_items, min_bins) x up to 3 templates")
    alpha = ALPHA if quick else ALPHA_T
    jobs = []
    caps = set()
    for key, rows in sorted(classes.items()):
        W, H, n, m = key[:4]
        for k in (0, 1, 2, 3):
            d = 2 * (n - m) + 2 * k
            extra = len(key) > 4 and key[4] > 0
            # budgets (vectors per template and length): the full alphabet
            # for short vectors, the 7-value alphabet next, the 5-value
            # sub-alphabet for the longest ones
            if quick:
                order = [(alpha, 3_000), (SUB, 16_000 if not (
                    extra and (n - m) > 1) else 700)]
            else:
                order = [(alpha, 60_000), (ALPHA, 120_000 if not extra
                                           else 20_000),
                         (SUB, 400_000 if (not extra and W * H <= 9)
                          else 16_000)]
            a = None
            for (cand, lim) in order:
                if len(cand) ** d <= lim:
                    a = cand
                    break
            if a is None:
                caps.add(f"n-m={n - m}, k={k} (d={d})"
                         f"{' additional templates' if extra else ''} "
                         "not explored")
                continue
            if a is not alpha:
                caps.add(f"n-m={n - m}, k={k} (d={d})"
                         f"{' additional templates' if extra else ''}: "
                         f"{len(a)}-value sub-alphabet")
            ns = len(a) if len(a) ** d > 10000 else 1
            jobs += [(key, rows, d, a, s, ns) for s in range(ns)]
    for c in sorted(caps):
        ctx.cap(c)
    jobs.sort(key=lambda j: -(len(j[3]) ** j[2]) // j[5])
    out = pmap(job, jobs, ctx.jobs)
    cnt = 0
    per_class = {}
    for j, (c, nd, bads, ds) in zip(jobs, out):
        cnt += c
        per_class.setdefault(j[0], set()).update(ds)
        for b in bads:
            report(ctx, b)
    distinct = sum(len(v) for v in per_class.values())
    ctx.add("evaluations", cnt)
    ctx.add("traces_validated_against_impl", cnt)
    ctx.add("states", distinct)
    ctx.add("transitions", cnt)
    ctx.part("decoder", vectors=cnt, classes=len(classes),
             templates=ntemplates, distinct_generated_item_sets=distinct,
             alphabet=[repr(v) for v in alpha])
    ctx.log(f"decoder: {cnt} vectors decoded (each twice), {distinct} "
            f"distinct generated item sets")
    # objectives on distinct instances (bounded number per class)
    oj = []
    for key, sets in sorted(per_class.items()):
        lim = 6 if quick else 30
        oj.append((key, classes[key], sorted(sets)[:lim]))
    out = pmap(objective_job, oj, ctx.jobs)
    oc = 0
    for (c, bads) in out:
        oc += c
        for b in bads:
            report(ctx, b)
    c2, bads = all_templates_errors(maxside, nmax)
    for b in bads:
        report(ctx, b)
    ctx.add("evaluations", oc + c2)
    ctx.part("objectives", evaluations=oc, templates_with_errors_zero=c2)
    ctx.cap("Errors/Hardness/ErrorsAndHardness evaluated on the first "
            f"{6 if quick else 30} distinct generated instances per class "
            "(inner budget 16 FEs, 2 runs)")
    ctx.log(f"objectives: {oc} evaluations; Errors(template)==0 on {c2} "
            f"templates")
    ctx.cov["distinct_nontrivial"] = distinct
    ctx.cov["rule"] = (
        "one template per (W, H, n_items, min_bins) class (the decoder "
        "depends on nothing else), every vector over the alphabet for every"
        " admissible length within the caps; non-trivial = distinct "
        "generated item multisets (each decided by the packing search)")
    ctx.sample({"template": {"bin": [4, 4], "items": [[2, 4, 2]]},
                "x": [0.5, -EPS1, -1.0, 0.5], "alphabet": repr(alpha)})
    ctx.assume("packability decided by models/fits.py (complete search over"
               " integer placements with rotation)")


def replay(ctx: Ctx, rep: dict) -> bool:
    from moptipyapps.binpacking2d.instgen.inst_decoding import (
        InstanceDecoder,
    )
    from moptipyapps.binpacking2d.instgen.instance_space import InstanceSpace
    key = tuple(rep["key"])
    tmpl = C.make_instance(key[0], key[1], rep["template"], name=tname(key))
    sp = InstanceSpace(tmpl)
    if not rep["x"]:
        print("objective case; re-run the check")
        return False
    y = []
    InstanceDecoder(sp).decode(np.array(rep["x"], float), y)
    bads = []
    check_instance(key, rep["template"], y[0], rep["x"], {}, bads)
    print(np.asarray(y[0]).tolist(), "lower bound", y[0].lower_bound_bins,
          "min_bins", sp.min_bins, bads)
    # the same vector as a strided and as a reversed view
    xv = np.array(rep["x"], float)
    big = np.full(2 * len(xv), 0.25)
    for lname, mk in (("strided view", lambda: big[::2]),
                      ("reversed strided view", lambda: big[::2][::-1])):
        big[::2] = xv if lname == "strided view" else xv[::-1]
        y2 = []
        try:
            InstanceDecoder(sp).decode(mk(), y2)
            same = np.array_equal(np.asarray(y2[0]), np.asarray(y[0]))
        except Exception as e:  # noqa
            same = False
            print(f"{lname}: {type(e).__name__}: {e}")
        if not same:
            bads.append(f"vector handed over as {lname}: other result")
    return not bads
