"""
C10: controlled-system simulation terminates, bounded and self-consistent.

Two bounded exhaustive explorations, both executing the real ``run_ode``,
``j_from_ode``, ``t_from_ode`` and ``diff_from_ode``:

1. *Programs x inputs.* A finite alphabet of (equations, controller)
   programs - the three bundled systems with bundled linear / ANN controllers
   on a parameter grid, linear test systems  ds_i/dt = a s_i + u  with closed
   forms, synthetic constant / proportional controllers and pure or stateful
   fault injectors - times starting states, step counts and time limits.
2. *Deviation-bounded fault enumeration of the retry loop.* On well-behaved
   base programs a scripted stub controller injects 0, 1, ... 5 faults, one
   per retry cycle, each in the integration phase (I) or the interpolation
   phase (P): all 63 sequences x trigger menu x fault values. A sequence of
   five faults is persistent (the last fault repeats in every later cycle).

Every controller runs inside :class:`Stub`, which counts calls and retry
cycles (a cycle starts with the solver's right-hand-side call at t = 0 in
the integration phase; the phases are told apart by whether ``out`` is a view
of the result matrix). Termination is part of the oracle: a run whose stub
sees more calls or cycles than the horizon is a violation (no wall clock).
The oracles are in ``models/ode.py``.
"""
import itertools
import math

import numpy as np

from mc.core import Ctx, HarnessError, pmap
from models import ode as M

CYCLE_HORIZON = 8          # documented: at most 5 cycles
PURE_CALL_HORIZON = 400_000
J_MENU = ((-1, 0.1), (1, 1.0), (0, 0.5))
WELL_BEHAVED = 1e8         # closed-form envelope of a well-behaved system
# analytic agreement: RK45 runs at rtol 1e-3 / atol 1e-6. Worst deviation
# measured on the unchanged tree: 0.21 % (quick alphabet), 0.54 % (thorough
# alphabet) of the largest closed-form state of the trajectory; the limit is
# fixed at > 10x that. The measured value is written to the evidence (part
# "programs", worst_analytic_dev).
ANALYTIC_REL = 0.06
ANALYTIC_ABS = 1e-6


class Horizon(Exception):
    """The step horizon of a run was exceeded."""


# ------------------------------------------------------------ number coding
def fl(v):
    return float(v) if isinstance(v, str) else v


def js(v):
    v = float(v)
    return v if math.isfinite(v) else repr(v)


def sane(seq):
    for x in seq:
        if not -M.LIMIT < x < M.LIMIT:
            return False
    return True


# ------------------------------------------------------------ real objects
_SYS = {}


def get_system(name):
    if name not in _SYS:
        if name == "stuart_landau":
            from moptipyapps.dynamic_control.systems.stuart_landau import (
                STUART_LANDAU_4 as s)
        elif name == "lorenz":
            from moptipyapps.dynamic_control.systems.lorenz import (
                LORENZ_4 as s)
        elif name == "3oscillators":
            from moptipyapps.dynamic_control.systems.\
                three_coupled_oscillators import (
                    THREE_COUPLED_OSCILLATORS as s)
        else:
            raise HarnessError(f"unknown system {name}")
        _SYS[name] = s
    return _SYS[name]


_CTRL = {}


def get_bundled(fam, sysname):
    key = (fam, sysname)
    if key not in _CTRL:
        s = get_system(sysname)
        if fam == "linear":
            from moptipyapps.dynamic_control.controllers.linear import linear
            c = linear(s)
        elif fam == "ann":
            from moptipyapps.dynamic_control.controllers.ann import anns
            c = tuple(anns(s))[2]      # one hidden layer with two neurons
        else:
            raise HarnessError(fam)
        _CTRL[key] = c
    return _CTRL[key]


SYS_DIMS = {"stuart_landau": 2, "lorenz": 3, "3oscillators": 6}


def eq_dims(eq):
    return SYS_DIMS[eq[1]] if eq[0] == "sys" else int(eq[2])


def make_equations(eq):
    """The right-hand side of a program: bundled (real) or linear test."""
    if eq[0] == "sys":
        return get_system(eq[1]).equations
    a = float(eq[1])
    n = int(eq[2])

    def lin(state, _t, control, out):
        u = control[0]
        for i in range(n):
            out[i] = a * state[i] + u
    return lin


# ---------------------------------------------------------- the controllers
def make_base(c, eq):
    """
    The sane, pure part of a controller spec: (function, parameters).

    The function has the package's controller signature
    ``(state, time, parameters, out)``.
    """
    kind = c[0]
    if kind == "const":
        v = float(c[1])

        def const(_s, t, _p, out):
            out[0] = v
            for j in range(1, len(out)):
                out[j] = 0.25 * t - 0.5 * j * v
        return const, 0.0
    if kind == "ks0":
        k = float(c[1])

        def ks0(s, t, _p, out):
            u = k * s[0]
            out[0] = u
            for j in range(1, len(out)):
                out[j] = 0.25 * t - 0.5 * j * u
        return ks0, 0.0
    if kind == "bundled":
        ctrl = get_bundled(c[1], eq[1] if eq[0] == "sys" else c[3])
        p = np.array([fl(v) for v in c[2]], float)
        if len(p) != ctrl.param_dims:
            raise HarnessError(f"{c}: needs {ctrl.param_dims} parameters")
        return ctrl.controller, p
    return make_base(c[1], eq)         # wrappers: the base is the inner spec


def base_spec(c):
    while c[0] not in ("const", "ks0", "bundled"):
        c = c[1]
    return c


def make_pure(c, eq):
    """
    The controller as a pure function of (state, time), or of the sane base.

    For the stateful fault injectors this is the sane base: a row of a
    returned result can only carry a sane control value, and the stub's
    faults are all insane values.
    """
    base, params = make_base(c, eq)
    if c[0] == "after_t":
        tau = float(c[2])
        v = fl(c[3])

        def after(s, t, p, out):
            base(s, t, p, out)
            if t > tau:
                out[:] = v
        return after, params
    return base, params


class Stub:
    """
    The controller handed to ``run_ode``: base + faults, counting everything.

    ``fault(cycle, phase, index, t, call number)`` decides whether this
    call returns the fault value; phase is "I" (integration: ``out`` owns
    its memory) or "P" (interpolation: ``out`` is a view of the result
    matrix), index the call
    number within the phase of the cycle.
    """

    def __init__(self, base, fault, value, max_calls, max_cycles):
        self.base = base
        self.fault = fault
        self.value = value
        self.max_calls = max_calls
        self.max_cycles = max_cycles
        self.calls = 0
        self.cycle = 0
        self.cycles = []          # per cycle: dict of what happened
        self.cur = None
        self.rows = []            # P-phase calls of the current cycle

    def __call__(self, state, t, params, out):
        self.calls += 1
        if self.calls > self.max_calls:
            raise Horizon(f"more than {self.max_calls} controller calls "
                          f"(cycle {self.cycle})")
        interp = out.base is not None
        if (not interp) and t == 0.0:
            self.cycle += 1
            if self.cycle > self.max_cycles:
                raise Horizon(f"retry cycle {self.cycle} started")
            self.cur = {"I": 0, "P": 0, "fI": None, "fP": None,
                        "insI": None, "insP": None, "dins": False}
            self.cycles.append(self.cur)
            self.rows = []
        cur = self.cur
        if cur is None:
            raise HarnessError("controller called before the solver's "
                               "first right-hand-side call at t = 0")
        ph = "P" if interp else "I"
        idx = cur[ph]
        cur[ph] = idx + 1
        self.base(state, t, params, out)
        if self.fault is not None and self.fault(self.cycle, ph, idx, t,
                                                 self.calls):
            out[:] = self.value
            if cur["f" + ph] is None:
                cur["f" + ph] = idx
        if not sane(out):
            if cur["ins" + ph] is None:
                cur["ins" + ph] = idx
        if interp:
            if idx == 0:
                self.rows = []
            self.rows.append((float(t), state.tolist(), out.tolist()))

    def wrap_equations(self, eq):
        def eqw(state, t, control, out):
            eq(state, t, control, out)
            if not sane(out):
                self.cur["dins"] = True
        return eqw


def make_fault(c, p):
    """The fault predicate of a controller spec (None = never)."""
    kind = c[0]
    if kind == "after_t":
        tau = float(c[2])
        return lambda cyc, ph, idx, t, n: t > tau
    if kind == "mth_call":
        m = int(c[2])
        return lambda cyc, ph, idx, t, n: n == m
    if kind == "phase_only":
        want = c[2]
        tau = float(c[4])
        return lambda cyc, ph, idx, t, n: ph == want and t > tau
    if kind == "cycle_only":
        want = int(c[2])
        tau = float(c[4])
        return lambda cyc, ph, idx, t, n: cyc == want and t > tau
    if kind == "script":
        script = c[2]
        trig = {"I": c[4], "P": c[5]}
        k = len(script)
        persistent = k >= 5

        def f(cyc, ph, idx, t, n):
            if cyc > k:
                if not persistent:
                    return False
                want = script[-1]
            else:
                want = script[cyc - 1]
            if ph != want:
                return False
            tr = trig[ph]
            if tr[0] == "idx":
                return idx == tr[1]
            return t > tr[1]
        return f
    return None


def fault_value(c):
    if c[0] in ("after_t", "mth_call", "phase_only", "cycle_only",
                "script"):
        return fl(c[3])
    return 0.0


def ctrl_kind(c):
    if c[0] == "bundled":
        return f"bundled-{c[1]}"
    if c[0] in ("const", "ks0"):
        return c[0]
    v = fl(c[3])
    vv = "nan" if v != v else ("inf" if math.isinf(v) else "huge")
    return f"{c[0]}({vv})"


def eq_kind(eq):
    return eq[1] if eq[0] == "sys" else "linear-test"


# --------------------------------------------------------- running one case
def cycle_label(d, steps):
    if d["P"] == 0:
        if d["insI"] is not None:
            return "I:control-insane"
        if d["dins"]:
            return "I:derivative-insane"
        return "I:solver-stopped"
    if d["insP"] is not None:
        return "P:control-insane@row0" if d["insP"] == 0 \
            else "P:control-insane"
    if d["P"] < steps:
        return "P:state-insane-or-left-range"
    return "P:complete"


def execute(p, horizon=None):
    """
    Run one program through the real code and judge it.

    Returns a dict: kind, path (labels per cycle + exit), calls, violations
    [(signature, text)], dev (analytic deviation or None), fired (faults).
    """
    from moptipyapps.dynamic_control import ode
    eq = p["eq"]
    c = p["ctrl"]
    n = eq_dims(eq)
    cd = int(p.get("cd", 1))
    steps = int(p["steps"])
    t_limit = float(p["T"])
    start = [fl(v) for v in p["start"]]
    base, params = make_base(c, eq)
    stub = Stub(base, make_fault(c, p), fault_value(c),
                horizon or PURE_CALL_HORIZON, CYCLE_HORIZON)
    eqw = stub.wrap_equations(make_equations(eq))
    s_arr = np.array(start, float)
    out = {"kind": None, "path": None, "calls": 0, "viol": [], "dev": None,
           "fired": None, "t_last": None, "j": None}
    tag = f"{eq_kind(eq)}/{ctrl_kind(c)}"

    def bad(site, what, text):
        out["viol"].append((f"{site}|{what}|{tag}", text))

    try:
        res = ode.run_ode(s_arr, eqw, stub, params, cd, steps, t_limit)
    except Horizon as h:
        out["kind"] = "horizon"
        out["calls"] = stub.calls
        out["path"] = tuple(cycle_label(d, steps) for d in stub.cycles) \
            + ("exit:none",)
        bad("run_ode", "no termination within the step horizon",
            f"did not finish: {h}")
        return out
    except HarnessError:
        raise
    except Exception as e:  # noqa
        out["kind"] = "raised"
        out["path"] = ("exit:exception",)
        bad("run_ode", f"raises {type(e).__name__}", f"raised {e!r}")
        return out
    out["calls"] = stub.calls
    if s_arr.tolist() != start and not any(v != v for v in start):
        bad("run_ode", "modifies the starting state",
            f"start became {s_arr.tolist()}")
    if not isinstance(res, np.ndarray) or res.ndim != 2:
        bad("run_ode", "result is not a matrix", f"got {type(res)}")
        out["kind"] = "malformed"
        return out
    rows = res.tolist()
    kind, probs = M.check_rows(rows, start, steps, t_limit, n, cd)
    out["kind"] = kind
    for what, text in probs:
        bad("run_ode", what, text)
    labels = tuple(cycle_label(d, steps) for d in stub.cycles)
    ncyc = len(stub.cycles)
    if kind == "full":
        ex = f"exit:return@{ncyc}"
    elif labels and labels[-1] == "P:control-insane@row0":
        ex = f"exit:failure-row(row0-insane)@{ncyc}"
    elif ncyc >= 5:
        ex = "exit:failure-row(cycle-limit)"
    else:
        ex = f"exit:failure-row(time-exhausted)@{ncyc}"
    out["path"] = labels + (ex,)
    out["fired"] = "".join(
        "I" if d["fI"] is not None else ("P" if d["fP"] is not None else "-")
        for d in stub.cycles)
    if kind == "malformed":
        return out

    # ---- the controls are the controller's outputs
    if kind == "full":
        pure, pparams = make_pure(c, eq)
        for i, r in enumerate(rows):
            o = np.full(cd, -7.25)
            pure(np.array(r[:n], float), r[-1], pparams, o)
            if o.tolist() != r[n:-1]:
                bad("run_ode", "control entry is not the controller's output"
                    + (" (row 0)" if i == 0 else ""),
                    f"row {i}: state {r[:n]} t={r[-1]!r} holds control "
                    f"{r[n:-1]} but the controller gives {o.tolist()}")
                break
        if len(stub.rows) != steps:
            bad("run_ode", "rows not produced by one controller call each",
                f"{len(stub.rows)} interpolation-phase calls in the final "
                f"cycle for {steps} rows")
        else:
            for i, (t, st, oo) in enumerate(stub.rows):
                r = rows[i]
                if t != r[-1] or st != r[:n] or oo != r[n:-1]:
                    bad("run_ode", "row differs from what the controller "
                        "saw/returned", f"row {i} is {r}, the controller "
                        f"was called with state {st}, t={t!r} and returned "
                        f"{oo}")
                    break

    # ---- figure of merit, time, differentials
    out["t_last"] = rows[-1][-1]
    finite = all(math.isfinite(v) for r in rows for v in r)
    try:
        tt = ode.t_from_ode(res)
        jjs = [ode.j_from_ode(res, n, use, gamma) for use, gamma in J_MENU]
        sc, df = ode.diff_from_ode(res, n)
        sc = np.asarray(sc).tolist()
        df = np.asarray(df).tolist()
    except Exception as e:  # noqa
        bad("j/t/diff_from_ode", f"raises {type(e).__name__}", repr(e))
        return out
    if float(tt) != rows[-1][-1]:
        bad("t_from_ode", "not the last time", f"gives {tt!r}, last row "
            f"time is {rows[-1][-1]!r}")
    for (use, gamma), jj in zip(J_MENU, jjs):
        if use == -1:
            out["j"] = float(jj)
        if kind == "fail":
            if jj != M.FAIL_J:
                bad("j_from_ode", "failure row does not give 1e200",
                    f"gives {jj!r}")
            continue
        if not jj >= 0.0:
            bad("j_from_ode", "negative", f"gives {jj!r}")
        if finite and rows[-1][-1] > 0.0:
            exp = M.j_exact(rows, n, use, gamma)
            if not M.rel_close(float(jj), exp):
                bad("j_from_ode", "differs from the documented "
                    "time-weighted sum / simulated time",
                    f"use_state_dims={use} gamma={gamma}: gives {jj!r}, "
                    f"definition gives {float(exp)!r}")
    if finite and all(rows[i + 1][-1] != rows[i][-1]
                      for i in range(len(rows) - 1)):
        msc, mdf = M.diff_model(rows, n)
        if sc != msc:
            bad("diff_from_ode", "state+control rows differ",
                f"gives {sc[:2]}.. expected {msc[:2]}..")
        if df != mdf and (mdf or df):
            bad("diff_from_ode", "differentials are not the finite "
                "differences", f"gives {df[:2]}.. expected {mdf[:2]}..")

    # ---- linear test systems: closed form
    b = base_spec(c)
    if eq[0] == "lin" and b[0] in ("const", "ks0") and \
            c[0] in ("const", "ks0", "after_t") and all(
            math.isfinite(v) for v in start):
        a = float(eq[1])
        cs = (b[0], float(b[1]))
        if c[0] != "after_t":
            env = M.lin_envelope(a, cs, start, t_limit)
            if env <= WELL_BEHAVED and (kind != "full"
                                        or rows[-1][-1] != t_limit):
                bad("run_ode", "well-behaved linear system not simulated "
                    "over the whole time",
                    f"closed form stays below {env:.3g} on [0, {t_limit}] "
                    f"but the result is {kind} with last time "
                    f"{rows[-1][-1]!r}")
        if kind == "full" and finite:
            ex_rows = [M.lin_exact(a, cs, start, r[-1])[0] for r in rows]
            scale = max(max(abs(v) for v in er) for er in ex_rows)
            worst = 0.0
            wi = 0
            for i, (r, er) in enumerate(zip(rows, ex_rows)):
                d = max(abs(x - y) for x, y in zip(r[:n], er))
                if d > worst:
                    worst, wi = d, i
            out["dev"] = (worst - ANALYTIC_ABS) / scale if scale > 0 \
                else (0.0 if worst <= ANALYTIC_ABS else math.inf)
            if worst > ANALYTIC_REL * scale + ANALYTIC_ABS:
                bad("run_ode", "states differ from the analytic solution",
                    f"row {wi} t={rows[wi][-1]!r}: state {rows[wi][:n]}, "
                    f"closed form {ex_rows[wi]} (deviation {worst:.3g}, "
                    f"trajectory scale {scale:.3g})")
    return out


# ------------------------------------------------------------ the alphabets
def starts_for(n, quick):
    small = [0.01 * (-1) ** i * (i + 1) for i in range(n)]
    mid = [(1.0, -2.0, 0.5, -0.25, 1.5, -1.0)[i] for i in range(n)]
    return [[0.0] * n, small, mid, [1e9] * n]


def bundled_params(fam, n, pdims):
    """Parameter grid of a bundled controller, simplest first."""
    if fam == "linear":
        vecs = [[0.0] * pdims, [-1.0] * pdims,
                [(30.0, -30.0, 30.0)[i] for i in range(pdims)],
                [1e9] * pdims, [1e12] * pdims]
    else:
        g = [((37 * i + 11) % 64 - 31.5) / 16.0 for i in range(pdims)]
        big = list(g)
        big[-(2 + 2)] = 1e12          # the output multiplier of the network
        vecs = [[0.0] * pdims, g, [4.0 * v for v in g], big]
    return vecs


def program_alphabet(quick):
    """All programs (without start/steps/T), simplest first."""
    progs = []
    lin_as = (-1.0, 20.0, 0.0) if quick else (-2.0, -1.0, 0.0, 0.1, 1.0,
                                               20.0, -20.0, 5.0)
    values = ("1e11", "nan") if quick else ("1e11", "1e50", "nan", "inf",
                                            "-inf")
    for a in lin_as:
        eq = ["lin", a, 2]
        cs = [["const", 0.0], ["const", 1.0], ["const", -3.0],
              ["ks0", -1.0], ["ks0", 0.5]]
        if not quick:
            cs += [["const", 1e9], ["ks0", -20.0], ["ks0", 3.0]]
        for c in cs:
            progs.append((eq, c, 1))
        progs.append((eq, ["ks0", -1.0], 2))
        progs.append((eq, ["const", 1.0], 2))
        for fam in ("linear", "ann"):
            ctrl = get_bundled(fam, "stuart_landau")
            for pv in bundled_params(fam, 2, ctrl.param_dims)[1:3]:
                progs.append((eq, ["bundled", fam, pv, "stuart_landau"], 1))
    for name in ("stuart_landau", "lorenz", "3oscillators"):
        eq = ["sys", name]
        n = SYS_DIMS[name]
        for c in (["const", 0.0], ["const", 1.0], ["ks0", -1.0]):
            progs.append((eq, c, 1))
        for fam in ("linear", "ann"):
            if fam == "linear" and n > 3:
                continue
            ctrl = get_bundled(fam, name)
            for pv in bundled_params(fam, n, ctrl.param_dims):
                progs.append((eq, ["bundled", fam, pv], 1))
    # fault injectors (tau of the time triggers is relative to T: see below)
    inj = []
    bases = [(["lin", -1.0, 2], ["ks0", -1.0]),
             (["sys", "stuart_landau"],
              ["bundled", "linear", [0.0, -1.0]]),
             (["sys", "lorenz"], ["const", 0.0])]
    if not quick:
        bases.append((["lin", 0.1, 2], ["const", 1.0]))
        bases.append((["sys", "3oscillators"], ["ks0", -1.0]))
    for eq, b in bases:
        for v in values:
            for tau in ("0", "0.1", "1", "0.98T") if quick else (
                    "0", "0.1", "1", "0.5T", "0.98T"):
                inj.append((eq, ["after_t", b, tau, v], 1))
            for m in (1, 2, 5, 50) if quick else (1, 2, 3, 5, 8, 50, 500):
                inj.append((eq, ["mth_call", b, m, v], 1))
            for ph in ("I", "P"):
                for tau in ("0", "0.5T"):
                    inj.append((eq, ["phase_only", b, ph, v, tau], 1))
            for cyc in (1, 2, 3):
                inj.append((eq, ["cycle_only", b, cyc, v, "0.5T"], 1))
    return progs, inj


def resolve_tau(c, t_limit):
    """Replace symbolic trigger times ("0.98T") by numbers."""
    def num(s):
        if isinstance(s, str) and s.endswith("T"):
            return float(s[:-1]) * t_limit
        return float(s)
    c = list(c)
    if c[0] == "after_t":
        c[2] = num(c[2])
    elif c[0] in ("phase_only", "cycle_only"):
        c[4] = num(c[4])
    return c


def input_grid(quick, injector):
    if quick:
        steps = (2, 10, 100) if not injector else (3, 10)
        times = (1e-9, 0.5, 50.0) if not injector else (0.5, 5.0)
    else:
        steps = (2, 3, 10, 100)
        times = (1e-9, 0.5, 5.0, 50.0)
    return steps, times


def all_programs(quick):
    progs, inj = program_alphabet(quick)
    res = []
    for group, is_inj in ((progs, False), (inj, True)):
        steps, times = input_grid(quick, is_inj)
        for eq, c, cd in group:
            n = eq_dims(eq)
            sts = starts_for(n, quick)
            if is_inj:
                sts = sts[1:3] if quick else sts
            for st, k, t in itertools.product(sts, steps, times):
                res.append({"eq": eq, "ctrl": resolve_tau(c, t), "cd": cd,
                            "start": [js(v) for v in st], "steps": k,
                            "T": t})
    return res


# ---- fault scripts
def script_bases(quick):
    b = [{"eq": ["lin", -1.0, 2], "ctrl": ["ks0", -0.5], "cd": 1,
          "start": [1.0, -2.0], "steps": 10, "T": 5.0},
         {"eq": ["sys", "stuart_landau"],
          "ctrl": ["bundled", "linear", [0.0, -1.0]], "cd": 1,
          "start": [0.1, -0.05], "steps": 7, "T": 2.0}]
    if not quick:
        b.append({"eq": ["sys", "lorenz"],
                  "ctrl": ["bundled", "ann", bundled_params(
                      "ann", 3, get_bundled("ann", "lorenz").param_dims)[1]],
                  "cd": 1, "start": [1.0, -2.0, 0.5], "steps": 4, "T": 0.5})
        b.append({"eq": ["lin", 0.1, 2], "ctrl": ["const", 1.0], "cd": 2,
                  "start": [0.0, 0.0], "steps": 30, "T": 1e-9})
        b.append({"eq": ["sys", "3oscillators"], "ctrl": ["ks0", -1.0],
                  "cd": 1, "start": [0.1, 0.0, 0.1, 0.0, 0.1, 0.0],
                  "steps": 100, "T": 5.0})
    return b


def all_scripts(quick):
    """(base index, script, value, trigger I, trigger P), fewest faults 1st."""
    values = ("1e11", "nan", "-inf") if quick else (
        "1e11", "1e50", "nan", "inf", "-inf")
    res = []
    for bi, b in enumerate(script_bases(quick)):
        t_limit = b["T"]
        steps = b["steps"]
        ti = [["idx", 0], ["idx", 1], ["idx", 2], ["idx", 9],
              ["t>", 0.1 * t_limit], ["t>", 0.98 * t_limit]]
        tp = [["idx", 0], ["idx", 1], ["idx", steps // 2],
              ["idx", steps - 1], ["t>", 0.1 * t_limit],
              ["t>", 0.98 * t_limit]]
        if quick:
            ti = [ti[0], ti[2], ti[3], ti[4]]
            tp = [tp[0], tp[1], tp[3], tp[5]]
        for k in range(6):
            for script in itertools.product("IP", repeat=k):
                s = "".join(script)
                for v in (values if k else values[:1]):
                    for a in (ti if "I" in s else ti[:1]):
                        for c in (tp if "P" in s else tp[:1]):
                            res.append((bi, s, v, a, c))
    return res


def script_program(base, s, v, a, c):
    p = dict(base)
    p["ctrl"] = ["script", base["ctrl"], s, v, a, c]
    return p


# ------------------------------------------------------------------- workers
def _summ():
    return {"n": 0, "kinds": {}, "paths": {}, "calls": 0, "maxcalls": 0,
            "dev": 0.0, "devn": 0, "viol": [], "fired": {}, "wb": 0}


def _account(s, p, r, keep_fired=False):
    s["n"] += 1
    s["kinds"][r["kind"]] = s["kinds"].get(r["kind"], 0) + 1
    s["paths"][r["path"]] = s["paths"].get(r["path"], 0) + 1
    s["calls"] += r["calls"]
    s["maxcalls"] = max(s["maxcalls"], r["calls"])
    if r["dev"] is not None:
        s["devn"] += 1
        s["dev"] = max(s["dev"], r["dev"])
    if keep_fired and r["fired"] is not None:
        s["fired"][r["fired"]] = s["fired"].get(r["fired"], 0) + 1
    seen = {x[0] for x in s["viol"]}
    for sig, text in r["viol"]:
        if sig not in seen:
            seen.add(sig)
            s["viol"].append((sig, text, p))


def program_job(chunk):
    s = _summ()
    for p in chunk:
        _account(s, p, execute(p))
    return s


def script_job(chunk):
    """chunk = list of (base program, baseline calls, script tuple)."""
    s = _summ()
    for base, ncalls, (bi, sc, v, a, c) in chunk:
        p = script_program(base, sc, v, a, c)
        p["horizon"] = 10 * ncalls + 1000
        _account(s, p, execute(p, p["horizon"]), keep_fired=True)
    return s


def merge(ss):
    t = _summ()
    for s in ss:
        t["n"] += s["n"]
        t["calls"] += s["calls"]
        t["maxcalls"] = max(t["maxcalls"], s["maxcalls"])
        t["dev"] = max(t["dev"], s["dev"])
        t["devn"] += s["devn"]
        for k in ("kinds", "paths", "fired"):
            for a, b in s[k].items():
                t[k][a] = t[k].get(a, 0) + b
        seen = {x[0] for x in t["viol"]}
        for v in s["viol"]:
            if v[0] not in seen:
                seen.add(v[0])
                t["viol"].append(v)
    return t


def chunks(items, k):
    k = max(1, k)
    return [items[i::k] for i in range(k) if items[i::k]]


def flow_states(paths):
    """The control-flow states (cycle, phase/event) and exits reached."""
    st = {}
    for path, cnt in paths.items():
        for ci, lab in enumerate(path[:-1]):
            key = f"cycle{ci + 1}/{lab}"
            st[key] = st.get(key, 0) + cnt
        st[path[-1]] = st.get(path[-1], 0) + cnt
    return dict(sorted(st.items()))


def describe(p):
    return (f"equations={p['eq']} controller={p['ctrl']} "
            f"control_dims={p.get('cd', 1)} start={p['start']} "
            f"steps={p['steps']} max_time={p['T']!r}")


def report(ctx, total):
    for sig, text, p in total["viol"]:
        again = execute(p, p.get("horizon"))
        if sig not in {x[0] for x in again["viol"]}:
            raise HarnessError(f"violation {sig} did not reproduce for "
                               f"{describe(p)}")
        ctx.violation(sig, f"{describe(p)}: {text}", {"program": p})


# ---------------------------------------------------------------------- run
def _same(a, b):
    """Equal numbers; two NaN count as equal."""
    return a == b or (a != a and b != b)


def multi_part(quick):
    """
    All small configurations of multi_run_ode against direct run_ode calls.

    Test and training groups get different numbers of steps and time limits;
    the collector must receive, in order, one result per start state with
    the requested number of rows of its own group (or one failure row), and
    the J / t values of that result.
    """
    import itertools

    from moptipyapps.dynamic_control.ode import (
        j_from_ode,
        multi_run_ode,
        run_ode,
        t_from_ode,
    )

    def eqs1(state, _t, control, out):
        out[0] = -state[0] + control[0]
        out[1] = -0.5 * state[1] + control[0]

    def ctrl1(state, _t, params, out):
        out[0] = params[0] * state[0]

    # the same system with a second control output (all bundled systems
    # have one; the signatures carry the number of outputs explicitly)
    def eqs2(state, _t, control, out):
        out[0] = -state[0] + control[0]
        out[1] = -0.5 * state[1] + control[0] - 0.25 * control[1]

    def ctrl2(state, _t, params, out):
        out[0] = params[0] * state[0]
        out[1] = 0.5 * state[0] * state[1]

    s1 = np.array([1.0, -2.0])
    s2 = np.array([0.5, 0.25])
    s3 = np.array([-1.0, 3.0])
    # s0: first coordinate 0, the controller output stays 0 whatever the
    # gain is: well-behaved next to start states that diverge / fail
    s0 = np.array([0.0, 1.0])
    groups = [[], [s1], [s2, s3]]
    stepss = (2, 3, 7) if quick else (2, 3, 7, 10)
    cnt = 0
    bad = []
    # gain -1: all well-behaved; 40: states with x0 != 0 leave +-1e10 within
    # the time limit (run cut short); 1e30: controller output out of range
    # at t = 0 (single failure row)
    plan = [(groups, stepss, -1.0, 1)]
    mixed = [[], [s1, s0], [s0, s1], [s0, s1, s0]]
    plan += [(mixed, (3,) if quick else (3, 7), g, 1) for g in (40.0, 1e30)]
    plan += [(groups, (3, 7), -1.0, 2), (mixed, (3,), 1e30, 2)]
    for groups, stepss, gain, cdim in plan:
        eqs, ctrl = (eqs1, ctrl1) if cdim == 1 else (eqs2, ctrl2)
        for tests, trains in itertools.product(groups, groups):
            if not tests and not trains:
                continue
            for (ts, trs) in itertools.product(stepss, stepss):
                for (tt, trt) in ((0.5, 2.0), (2.0, 0.5), (1.0, 1.0)):
                    for (usd, gamma) in ((-1, 0.1), (1, 2.0)):
                        got = []
                        params = np.array([gain])
                        raised = None
                        try:
                            multi_run_ode(tests, trains,
                                          lambda i, o, j, t: got.append(
                                              (i, np.array(o), j, t)),
                                          eqs, ctrl, params, cdim, ts, tt,
                                          trs, trt, usd, gamma)
                        except Exception as e:  # noqa
                            raised = f"{type(e).__name__}: {e}"
                        cnt += 1
                        exp = []
                        for sp in tests:
                            exp.append(run_ode(sp, eqs, ctrl, params, cdim, ts,
                                               tt))
                        for sp in trains:
                            exp.append(run_ode(sp, eqs, ctrl, params, cdim, trs,
                                               trt))
                        want = [ts] * len(tests) + [trs] * len(trains)
                        ok = len(got) == len(exp)
                        why = "number of collected results"
                        if raised is not None:
                            ok = False
                            why = ("raises " + raised.split(":")[0] + " 0 ("
                                   + raised + ")")
                        if ok and raised is None:
                            for k, (i, o, j, t) in enumerate(got):
                                if i != k:
                                    ok, why = False, "index order"
                                elif o.shape[0] not in (want[k], 1):
                                    ok = False
                                    why = (f"result {k} has {o.shape[0]} rows, "
                                           f"requested {want[k]}")
                                elif not np.array_equal(o, exp[k]):
                                    ok, why = False, f"result {k} differs"
                                elif not (_same(j, j_from_ode(
                                        exp[k], 2, usd, gamma))
                                        and _same(t, t_from_ode(exp[k]))):
                                    ok, why = False, f"J or t of result {k}"
                        if not ok and len(bad) < 3:
                            bad.append((
                                "multi_run_ode|" + why.split(" has ")[0].split(
                                    " 0")[0],
                                f"multi_run_ode with test states "
                                f"{[x.tolist() for x in tests]} and training "
                                f"states {[x.tolist() for x in trains]}, "
                                f"controller gain {gain}, {cdim} control "
                                f"output(s), steps "
                                f"({ts}, {trs}), times ({tt}, {trt}): {why} "
                                "(compared with run_ode on each state alone)",
                                {"multi": True, "tests": len(tests),
                                 "trains": len(trains), "steps": [ts, trs],
                                 "times": [tt, trt], "gain": gain}))
    return cnt, bad


def nested_part():
    """
    Controllers that run a simulation themselves.

    A controller is a program; one that calls run_ode (a cached reference
    trajectory on its first call, or a short look-ahead on every call) is
    legal. The outer simulation must be the one obtained with a controller
    that returns the same outputs without simulating.
    """
    from moptipyapps.dynamic_control.ode import run_ode

    def eqs(state, _t, control, out):
        out[0] = -state[0] + control[0]
        out[1] = -0.5 * state[1] + control[0]

    def inner_eqs(state, _t, control, out):
        out[0] = -2.0 * state[0] + control[0]
        out[1] = state[0] - state[1]

    def inner_ctrl(state, _t, params, out):
        out[0] = 0.25 * state[1]

    def plain(state, _t, params, out):
        out[0] = params[0] * state[0]

    cnt = 0
    bad = []
    for mode in ("first call", "every call"):
        for steps, tmax in ((3, 0.5), (7, 2.0), (40, 5.0)):
            for start in ([1.0, -2.0], [0.5, 0.25]):
                seen = []

                def nested(state, t, params, out, mode=mode, seen=seen):
                    if mode == "every call" or not seen:
                        seen.append(run_ode(
                            np.array([0.3, -0.1]), inner_eqs, inner_ctrl,
                            np.zeros(1), 1, 5, 0.25))
                    out[0] = params[0] * state[0]
                p = np.array([-1.0])
                exp = run_ode(np.array(start), eqs, plain, p, 1, steps, tmax)
                inner = run_ode(np.array([0.3, -0.1]), inner_eqs, inner_ctrl,
                                np.zeros(1), 1, 5, 0.25)
                try:
                    got = run_ode(np.array(start), eqs, nested, p, 1, steps,
                                  tmax)
                    why = None if np.array_equal(got, exp) else (
                        f"result {np.asarray(got).tolist()} expected "
                        f"{np.asarray(exp).tolist()}")
                    if why is None and not all(
                            np.array_equal(x, inner) for x in seen):
                        why = "the inner simulations differ from each other"
                except Exception as e:  # noqa
                    why = f"raises {type(e).__name__}: {e}"
                cnt += 1
                if why and not bad:
                    bad.append((
                        "run_ode|a controller that simulates itself changes "
                        "the outer simulation",
                        f"controller that calls run_ode on the {mode} "
                        f"(inner: 5 steps, T=0.25), outer start={start} "
                        f"steps={steps} max_time={tmax}: {why[:600]}",
                        {"multi": True, "nested": mode}))
    return cnt, bad


def run(ctx: Ctx) -> None:
    quick = ctx.quick
    for name in SYS_DIMS:
        get_system(name)
        for fam in ("linear", "ann"):
            if not (fam == "linear" and SYS_DIMS[name] > 3):
                c = get_bundled(fam, name)
                c.controller(np.zeros(SYS_DIMS[name]), 0.0,
                             np.zeros(c.param_dims), np.empty(1))
        s = get_system(name)
        s.equations(np.zeros(SYS_DIMS[name]), 0.0, np.zeros(1),
                    np.empty(SYS_DIMS[name]))

    # ---- part 1: programs x inputs
    progs = all_programs(quick)
    ctx.log(f"programs x inputs: {len(progs)} executions")
    tot = merge(pmap(program_job, chunks(progs, ctx.jobs * 8), ctx.jobs))
    ctx.add("evaluations", tot["n"])
    ctx.add("traces_validated_against_impl", tot["n"])
    ctx.part("programs", executions=tot["n"], outcomes=tot["kinds"],
             controller_calls=tot["calls"],
             max_calls_in_one_run=tot["maxcalls"],
             call_horizon=PURE_CALL_HORIZON, cycle_horizon=CYCLE_HORIZON,
             analytic_comparisons=tot["devn"],
             worst_analytic_dev=tot["dev"], analytic_limit=ANALYTIC_REL,
             distinct_retry_paths=len(tot["paths"]),
             control_flow_states=flow_states(tot["paths"]))
    ctx.log(f"programs: outcomes={tot['kinds']} paths={len(tot['paths'])} "
            f"maxcalls={tot['maxcalls']} worst analytic dev="
            f"{tot['dev']:.3g} over {tot['devn']}")
    report(ctx, tot)

    # ---- part 2: fault sequences of the retry loop
    bases = script_bases(quick)
    ncalls = []
    for b in bases:
        r = execute(b)
        if r["kind"] != "full" or r["viol"] or len(r["path"]) != 2:
            # the base program itself misbehaves: already a finding of part
            # 1's kind; report and skip its scripts
            for sig, text in r["viol"]:
                ctx.violation(sig, f"{describe(b)}: {text}", {"program": b})
            ncalls.append(None)
        else:
            ncalls.append(r["calls"])
    scripts = [x for x in all_scripts(quick) if ncalls[x[0]] is not None]
    items = [(bases[x[0]], ncalls[x[0]], x) for x in scripts]
    ctx.log(f"fault scripts: {len(items)} executions on {len(bases)} base "
            "programs")
    ft = merge(pmap(script_job, chunks(items, ctx.jobs * 8), ctx.jobs))
    ctx.add("evaluations", ft["n"])
    ctx.add("traces_validated_against_impl", ft["n"])
    seqs = sorted({x[1] for x in scripts}, key=lambda s: (len(s), s))
    fired_full = sorted((k for k in ft["fired"]), key=lambda s: (len(s), s))
    ctx.part("fault_sequences", executions=ft["n"],
             scripted_sequences=len(seqs),
             max_faults=max([len(s) for s in seqs] or [0]),
             base_programs=len(bases), outcomes=ft["kinds"],
             fired_fault_patterns={k: ft["fired"][k] for k in fired_full},
             distinct_fired_patterns=len(fired_full),
             distinct_retry_paths=len(ft["paths"]),
             max_calls_in_one_run=ft["maxcalls"],
             baseline_calls=ncalls,
             control_flow_states=flow_states(ft["paths"]))
    ctx.log(f"fault scripts: outcomes={ft['kinds']} fired patterns="
            f"{len(fired_full)} paths={len(ft['paths'])}")
    report(ctx, ft)

    # ---- part 3: multi_run_ode hands every start state to run_ode with the
    # steps / time limit of its own group (tests first, then training)
    mc, mbad = multi_part(quick)
    for sig, text, rep in mbad:
        ctx.violation(sig, text, rep)
    ctx.add("evaluations", mc)
    ctx.add("traces_validated_against_impl", mc)
    ctx.part("multi_run_ode", configurations=mc)
    ctx.log(f"multi_run_ode: {mc} configurations")
    nc, nbad = nested_part()
    for sig, text, rep in nbad:
        ctx.violation(sig, text, rep)
    ctx.add("evaluations", nc)
    ctx.add("traces_validated_against_impl", nc)
    ctx.part("controllers_that_simulate", configurations=nc)

    nontrivial = {p for p in list(tot["paths"]) + list(ft["paths"])
                  if len(p) > 2 or not p[-1].startswith("exit:return")}
    ctx.cov["distinct_nontrivial"] = len(nontrivial)
    ctx.cov["rule"] = (
        "every (equations, controller) program of the alphabet x start x "
        "steps x time limit, and every fault script (all I/P sequences of "
        "length 0..5 x trigger menu x fault value x base program), each "
        "executed once by the real run_ode under a call/cycle horizon; "
        "non-trivial = distinct retry-loop paths (per-cycle event labels + "
        "exit kind) that need more than one cycle or end in the failure row")
    for p in (progs[ctx.seed % len(progs)],
              script_program(bases[0], "IP", "nan", ["idx", 2],
                             ["idx", 5])):
        r = execute(p)
        ctx.sample({"program": p, "kind": r["kind"], "path": r["path"],
                    "calls": r["calls"], "t_last": r["t_last"],
                    "J": r["j"]})
    ctx.assume("real-valued states, parameters, trigger times and time "
               "limits only on the listed grids; fault values 1e11, 1e50, "
               "NaN, +inf, -inf")
    ctx.assume("analytic agreement is decided at 6 % of the trajectory's "
               "largest closed-form state + 1e-6 (RK45 at rtol 1e-3)")
    ctx.assume("the solver-status 'failed' branch (step size underflow "
               "without leaving the sane range) is not reached by any "
               "program of the alphabet; in-range erratic right-hand sides "
               "are outside the alphabet")


def replay(ctx: Ctx, rep: dict) -> bool:
    if rep.get("multi"):
        c, bad = multi_part(True)
        c2, bad2 = nested_part()
        print(bad + bad2)
        return not (bad or bad2)
    p = rep["program"]
    r = execute(p, p.get("horizon"))
    print(describe(p))
    print(f"outcome: {r['kind']} path={r['path']} calls={r['calls']} "
          f"t_last={r['t_last']!r}")
    for sig, text in r["viol"]:
        print(f"  {sig}: {text}")
    return not r["viol"]
