"""
C05: tour length = cyclic edge sum; storage dtype, bounds, symmetry flag.

Bounded exhaustive input-space enumeration against a big-int model:

* public path: every matrix of a boundary-value alphabet is handed to the
  real ``Instance`` constructor; the stored copy, the chosen dtype, the
  symmetry flag and both bounds are compared with the model, and the real
  ``TourLength.evaluate`` is run on every permutation, handed over in every
  integer dtype a permutation space can produce;
* kernel path: a numba driver stores every matrix of a larger alphabet in the
  most compact signed type that can hold +-(sum of row maxima) (what the
  instance promises) and runs the real ``tour_length`` kernel on all
  permutations.
"""
import itertools

import numpy as np

from mc.core import Ctx, HarnessError, pmap
from models import tsp as M

XDT_ALL = ("int8", "int16", "int32", "int64", "uint8", "uint16", "uint32")
V_Q = [0, 1, 2, 127, 128, 32767, 32768, 10 ** 12]
V_2 = V_Q + [2 ** 31 - 1, 2 ** 31, 5 * 10 ** 14]
V_3T = V_Q + [2 ** 31 - 1, 2 ** 31]
B_4 = [127, 128, 2 ** 31 - 1, 10 ** 12]
B_4S = [127, 128, 32767, 32768, 2 ** 31 - 1, 2 ** 31, 10 ** 12]

KINDS = {
    "stored": "stored matrix differs from the given one",
    "dtype": "storage dtype cannot represent +-multiplier*max(upper bound,"
             " n)",
    "sym": "is_symmetric differs from (m == m^T)",
    "len": "tour length differs from the cyclic edge sum",
    "raise": "evaluate raised on a valid permutation",
    "lb": "a tour is shorter than the lower bound",
    "ub": "a tour is longer than the upper bound",
    "attr": "n_cities / bound accessors inconsistent",
}


def _shape(m):
    return "symmetric" if M.is_symmetric(m) else "asymmetric"


def check_case(m, mult, lbmode, xdts, stats=None):
    """
    One matrix through the public API.

    Returns ("out", None) if the matrix is outside the quantifier,
    ("rejected", msg) if the constructor refuses it loudly, ("ok", n_evals)
    or ("bad", kind, detail-dict).
    """
    from moptipyapps.tsp.instance import Instance
    from moptipyapps.tsp.tour_length import TourLength
    n = len(m)
    if not M.row_positive(m):
        return ("out", None)
    lens = M.all_tour_lengths(m)
    lo = min(lens.values())
    hi = max(lens.values())
    supplied = 0 if lbmode == 0 else lo
    try:
        src = np.array(m, np.int64)
        inst = Instance("c05", supplied, src, mult)
        # hand the matrix over once more in the very type the instance chose
        # for storage, then overwrite the caller's buffer: the instance must
        # hold its own copy ("the stored matrix equals the given one")
        src2 = np.array(m, inst.dtype)
        inst2 = Instance("c05", supplied, src2, mult)
        src2.fill(1)
        src.fill(1)
        # ... and in other legal memory layouts of the same matrix
        layouts = []
        if not M.is_symmetric(m):
            base64 = np.array(m, np.int64)
            big = np.zeros((2 * n, 2 * n), np.int64)
            big[::2, ::2] = base64
            for lname, arr in (
                    ("Fortran-ordered array", np.asfortranarray(base64)),
                    ("transposed view", np.ascontiguousarray(base64.T).T),
                    ("strided view", big[::2, ::2])):
                try:
                    layouts.append((lname, np.asarray(Instance(
                        "c05", supplied, arr, mult)).tolist()))
                except (TypeError, ValueError):
                    pass    # refused loudly
    except Exception as e:  # noqa  (a loud rejection is not a violation)
        return ("rejected", f"{type(e).__name__}: {e}")
    f = TourLength(inst)
    base = {"matrix": m, "mult": mult, "lbmode": lbmode,
            "supplied_lower_bound": supplied}
    if np.asarray(inst2).tolist() != m:
        return ("bad", "stored", dict(
            base, observed=np.asarray(inst2).tolist(), expected=m,
            note=f"matrix handed over as {inst.dtype} array that the caller "
                 "overwrote afterwards"))
    for lname, got in layouts:
        if got != m:
            return ("bad", "stored", dict(
                base, observed=got, expected=m,
                note=f"matrix handed over as {lname}"))
    if inst.n_cities != n or inst.shape != (n, n):
        return ("bad", "attr", dict(base, observed=[inst.n_cities,
                                                    list(inst.shape)]))
    stored = np.asarray(inst).tolist()
    if stored != m:
        return ("bad", "stored", dict(base, observed=stored, expected=m))
    lb = inst.tour_length_lower_bound
    ub = inst.tour_length_upper_bound
    if stats is not None:
        stats["dtypes"][str(inst.dtype)] = \
            stats["dtypes"].get(str(inst.dtype), 0) + 1
        stats["sym"] += 1 if M.is_symmetric(m) else 0
        stats["tight_lb"] += 1 if lb == lo else 0
        stats["tight_ub"] += 1 if ub == hi else 0
        if len(stats["lengths"]) < 5000:
            stats["lengths"].update(lens.values())
    if f.lower_bound() != lb or f.upper_bound() != ub:
        return ("bad", "attr", dict(base, observed=[
            f.lower_bound(), f.upper_bound()], expected=[lb, ub]))
    limit = mult * max(int(ub), n)
    if not M.represents(inst.dtype, -limit, limit):
        # The documented storage policy (type holds +-multiplier*max(ub, n))
        # is an implementation detail: the statement only demands exact tour
        # lengths and an exact stored copy, which are checked below whatever
        # type was chosen. Counted, not reported.
        stats["narrower_than_documented"] = \
            stats.get("narrower_than_documented", 0) + 1
    sym = M.is_symmetric(m)
    if bool(inst.is_symmetric) != sym:
        return ("bad", "sym", dict(base, observed=bool(inst.is_symmetric),
                                   expected=sym))
    if lb > lo:
        p = min(lens, key=lambda q: (lens[q], q))
        return ("bad", "lb", dict(base, perm=list(p), observed=int(lb),
                                  expected=f"<= {lo}"))
    if ub < hi:
        p = min(lens, key=lambda q: (-lens[q], q))
        return ("bad", "ub", dict(base, perm=list(p), observed=int(ub),
                                  expected=f">= {hi}"))
    cnt = 0
    for p, exp in lens.items():
        for dt in xdts:
            x = np.array(p, dt)
            try:
                got = f.evaluate(x)
            except Exception as e:  # noqa
                return ("bad", "raise", dict(
                    base, perm=list(p), xdtype=dt,
                    observed=f"{type(e).__name__}: {e}", expected=exp))
            cnt += 1
            if int(got) != exp or got != exp:
                return ("bad", "len", dict(base, perm=list(p), xdtype=dt,
                                           observed=int(got), expected=exp,
                                           storage=str(inst.dtype)))
    return ("ok", cnt)


def _job(a):
    n, values, symmetric, start, stop, modes = a
    stats = {"dtypes": {}, "sym": 0, "tight_lb": 0, "tight_ub": 0,
             "lengths": set()}
    evals = 0
    inst = 0
    built = 0
    out = 0
    rej = 0
    rej_msg = None
    bad = []
    seen = set()
    for idx in range(start, stop):
        m = M.matrix_from_index(n, values, idx, symmetric)
        for mult, lbmode, xdts in modes:
            r = check_case(m, mult, lbmode, xdts, stats)
            if r[0] == "ok":
                evals += r[1]
                inst += 1
                built += 1
            elif r[0] == "out":
                out += 1
                break
            elif r[0] == "rejected":
                rej += 1
                if rej_msg is None:
                    rej_msg = [m, mult, lbmode, r[1]]
            else:
                built += 1
                key = (r[1], _shape(m))
                if key not in seen:
                    seen.add(key)
                    bad.append((r[1], r[2]))
    stats["lengths"] = sorted(stats["lengths"])[:5000]
    return evals, inst, out, rej, rej_msg, bad, stats, built


def _warm(xdts):
    """Compile tour_length for all (storage, x) dtype pairs before forking."""
    from moptipyapps.tsp.instance import Instance
    from moptipyapps.tsp.tour_length import TourLength
    for big in (1, 128, 32768, 2 ** 31):
        try:
            inst = Instance("warm", 0, np.array([[0, big], [1, 0]],
                                                np.int64))
            f = TourLength(inst)
            for dt in xdts:
                f.evaluate(np.array([1, 0], dt))
        except Exception:  # noqa  (reported later by the exploration)
            pass


def _public(ctx, agg, name, n, values, symmetric, modes, lo=0, hi=None):
    total = M.n_matrices(n, values, symmetric)
    if hi is None:
        hi = total
    span = hi - lo
    nch = max(1, min(ctx.jobs * 6, span // 50))
    b = [lo + span * i // nch for i in range(nch + 1)]
    jobs = [(n, values, symmetric, b[i], b[i + 1], modes)
            for i in range(nch) if b[i] < b[i + 1]]
    res = pmap(_job, jobs, ctx.jobs)
    evals = sum(r[0] for r in res)
    inst = sum(r[1] for r in res)
    out = sum(r[2] for r in res)
    rej = sum(r[3] for r in res)
    ctx.add("evaluations", evals)
    ctx.add("traces_validated_against_impl", inst)
    ctx.add("states", span - out)
    ctx.add("transitions", evals)
    dts = {}
    for r in res:
        st = r[6]
        for k, v in st["dtypes"].items():
            dts[k] = dts.get(k, 0) + v
            agg["dtypes"][k] = agg["dtypes"].get(k, 0) + v
        agg["sym"] += st["sym"]
        agg["tight_lb"] += st["tight_lb"]
        agg["tight_ub"] += st["tight_ub"]
        agg["narrower"] = agg.get("narrower", 0) + st.get(
            "narrower_than_documented", 0)
        if len(agg["lengths"]) < 20000:
            agg["lengths"].update(st["lengths"])
    agg["accepted"] += sum(r[7] for r in res)
    ctx.part(name, matrices=span, of_total=total, outside_quantifier=out,
             instances_built=inst, rejected_by_constructor=rej,
             evaluations=evals, modes=[list(mo[:2]) + [len(mo[2])]
                                       for mo in modes],
             storage_dtypes=dts)
    ctx.log(f"{name}: matrices={span} out={out} built={inst} rejected={rej}"
            f" evals={evals} dtypes={dts}")
    for r in res:
        if r[4] is not None and "first_rejection" not in \
                ctx.cov["parts"][name]:
            ctx.part(name, first_rejection=r[4])
    for r in res:
        for kind, det in r[5]:
            report(ctx, kind, det, "public")


def report(ctx, kind, det, path):
    m = det["matrix"]
    xdts = [det["xdtype"]] if "xdtype" in det else ["int8"]
    again = check_case(m, det["mult"], det["lbmode"], xdts)
    if again[0] != "bad":
        again = check_case(m, det["mult"], det["lbmode"], XDT_ALL)
    if again[0] != "bad":
        raise HarnessError(f"C05 failure not reproducible: {kind} {det} "
                           f"-> {again}")
    n = len(m)
    site = "TourLength.evaluate" if kind in ("len", "raise") else "Instance"
    sig = f"{site}|{KINDS[kind]}|{_shape(m)}"
    if kind == "dtype":
        sig += f"|multiplier{'=1' if det['mult'] == 1 else '>1'}"
    text = (f"{KINDS[kind]}: n={n} matrix={m} multiplier={det['mult']} "
            f"supplied lower bound={det['supplied_lower_bound']} "
            + (f"tour={det['perm']} " if "perm" in det else "")
            + (f"x dtype={det['xdtype']} " if "xdtype" in det else "")
            + (f"storage={det['storage']} " if "storage" in det else "")
            + f"observed={det['observed']} expected={det['expected']} "
            f"({path} path)")
    rep = dict(det)
    rep["kind"] = kind
    rep["pytest"] = PYTEST.format(m=m, lb=det["supplied_lower_bound"],
                                  mult=det["mult"],
                                  p=det.get("perm", list(range(n))),
                                  dt=det.get("xdtype", "int8"))
    ctx.violation(sig, text, rep)


PYTEST = '''
def test_c05_replay():
    import numpy as np
    from moptipyapps.tsp.instance import Instance
    from moptipyapps.tsp.tour_length import TourLength
    m = {m}
    inst = Instance("c05", {lb}, np.array(m, np.int64), {mult})
    p = {p}
    exp = sum(m[p[k]][p[(k + 1) % len(p)]] for k in range(len(p)))
    assert np.asarray(inst).tolist() == m
    assert inst.is_symmetric == (m == [list(r) for r in zip(*m)])
    assert TourLength(inst).evaluate(np.array(p, "{dt}")) == exp
    assert inst.tour_length_lower_bound <= exp <= inst.tour_length_upper_bound
    lim = {mult} * max(inst.tour_length_upper_bound, len(m))
    assert np.iinfo(inst.dtype).min <= -lim and lim <= np.iinfo(inst.dtype).max
'''


# ------------------------------------------------------------- kernel path
_DRV = {}


def drivers():
    if _DRV:
        return _DRV
    import numba
    from moptipyapps.tsp.tour_length import tour_length
    cyc = numba.njit(cache=False)(M.cyc_len)

    @numba.njit(cache=False)
    def drive(n, vals, cells, symmetric, start, stop, p8, p64, res, bad):
        """
        res: 0 kernel calls, 1 matrices outside quantifier, 2..5 matrices
        stored as int8/16/32/64, 6 checksum of lengths (vacuity guard)
        bad: idx, perm row, observed, expected, x dtype (0 = int8, 1 = int64)
        """
        k = vals.shape[0]
        nc = cells.shape[0]
        m64 = np.zeros((n, n), np.int64)
        m32 = np.zeros((n, n), np.int32)
        m16 = np.zeros((n, n), np.int16)
        m8 = np.zeros((n, n), np.int8)
        bad[0] = -1
        for idx in range(start, stop):
            t = idx
            for c in range(nc - 1, -1, -1):
                v = vals[t % k]
                t //= k
                m64[cells[c, 0], cells[c, 1]] = v
                if symmetric:
                    m64[cells[c, 1], cells[c, 0]] = v
            ub = 0
            ok = True
            for i in range(n):
                mx = 0
                for j in range(n):
                    if j != i and m64[i, j] > mx:
                        mx = m64[i, j]
                if mx <= 0:
                    ok = False
                ub += mx
            if not ok:
                res[1] += 1
                continue
            limit = ub if ub > n else n
            code = 3
            if limit <= 127:
                code = 0
                m8[:, :] = m64
            elif limit <= 32767:
                code = 1
                m16[:, :] = m64
            elif limit <= 2147483647:
                code = 2
                m32[:, :] = m64
            res[2 + code] += 1
            for r in range(p64.shape[0]):
                exp = cyc(m64, p64[r])
                if code == 0:
                    g1 = tour_length(m8, p8[r])
                    g2 = tour_length(m8, p64[r])
                elif code == 1:
                    g1 = tour_length(m16, p8[r])
                    g2 = tour_length(m16, p64[r])
                elif code == 2:
                    g1 = tour_length(m32, p8[r])
                    g2 = tour_length(m32, p64[r])
                else:
                    g1 = tour_length(m64, p8[r])
                    g2 = tour_length(m64, p64[r])
                res[0] += 2
                res[6] = (res[6] + g1) % 1000000007
                if (g1 != exp or g2 != exp) and bad[0] < 0:
                    bad[0] = idx
                    bad[1] = r
                    bad[2] = g1 if g1 != exp else g2
                    bad[3] = exp
                    bad[4] = 0 if g1 != exp else 1
    _DRV["drive"] = drive
    _DRV["tour_length"] = tour_length
    return _DRV


def _kjob(a):
    n, values, symmetric, start, stop = a
    d = drivers()
    cells = np.array(M.upper_cells(n) if symmetric else M.offdiag_cells(n),
                     np.int64)
    res = np.zeros(8, np.int64)
    bad = np.zeros(5, np.int64)
    d["drive"](n, np.array(values, np.int64), cells, symmetric, start, stop,
               M.perms_array(n, np.int8), M.perms_array(n, np.int64), res,
               bad)
    return res, bad


def kernel_case(m, p, xdt):
    """One kernel call from Python with model-chosen storage; (got, exp)."""
    d = drivers()
    n = len(m)
    ub = sum(max(v for j, v in enumerate(r) if j != i)
             for i, r in enumerate(m))
    dt = M.SIGNED[M.signed_code(max(ub, n))]
    got = int(d["tour_length"](np.array(m, dt), np.array(p, xdt)))
    return got, M.tour_length_exact(m, p), np.dtype(dt).name


def _kernel(ctx, name, n, values, symmetric, lo=0, hi=None):
    total = M.n_matrices(n, values, symmetric)
    if hi is None:
        hi = total
    span = hi - lo
    nch = max(1, min(ctx.jobs * 4, span // 1000))
    b = [lo + span * i // nch for i in range(nch + 1)]
    jobs = [(n, values, symmetric, b[i], b[i + 1]) for i in range(nch)]
    out = pmap(_kjob, jobs, ctx.jobs)
    calls = sum(int(r[0][0]) for r in out)
    outside = sum(int(r[0][1]) for r in out)
    by = [sum(int(r[0][2 + c]) for r in out) for c in range(4)]
    ctx.add("evaluations", calls)
    ctx.add("transitions", calls)
    ctx.add("states", span - outside)
    ctx.add("traces_validated_against_impl", calls)
    ctx.part(name, matrices=span, of_total=total, outside_quantifier=outside,
             kernel_calls=calls, stored_as_int8_16_32_64=by)
    ctx.log(f"{name}: matrices={span} outside={outside} calls={calls} "
            f"storage={by}")
    perms = M.perms_array(n)
    for r, bad in out:
        if bad[0] >= 0:
            m = M.matrix_from_index(n, values, int(bad[0]), symmetric)
            p = perms[int(bad[1])].tolist()
            xdt = "int8" if bad[4] == 0 else "int64"
            got, exp, st = kernel_case(m, p, xdt)
            if got == exp:
                raise HarnessError(f"C05 kernel failure not reproducible: "
                                   f"{m} {p} {bad.tolist()}")
            ctx.violation(
                f"tour_length|{KINDS['len']}|{_shape(m)}|kernel",
                f"{KINDS['len']}: n={n} matrix={m} stored as {st} tour={p} "
                f"x dtype={xdt} observed={got} expected={exp} (kernel path)",
                {"kind": "kernel", "matrix": m, "perm": p, "xdtype": xdt,
                 "observed": got, "expected": exp})
            break
    return by


def _model_vs_model(ctx):
    """The numba-subset model agrees with the big-int model (interpreted)."""
    cnt = 0
    for n, values in ((3, V_Q), (4, [0, 1, 10 ** 12])):
        tot = M.n_matrices(n, values, False)
        for idx in range(0, tot, max(1, tot // 600)):
            m = M.matrix_from_index(n, values, idx, False)
            a = np.array(m, np.int64)
            for p in itertools.permutations(range(n)):
                if int(M.cyc_len(a, np.array(p))) != \
                        M.tour_length_exact(m, p):
                    raise HarnessError(f"models disagree on {m} {p}")
                cnt += 1
    ctx.part("model_vs_model", comparisons=cnt)


def run(ctx: Ctx) -> None:
    quick = ctx.quick
    drivers()
    _warm(XDT_ALL)
    _model_vs_model(ctx)
    agg = {"dtypes": {}, "sym": 0, "tight_lb": 0, "tight_ub": 0,
           "lengths": set(), "accepted": 0}
    full = [(1, 0, XDT_ALL), (8, 0, ("int8",)), (32, 0, ("int16",)),
            (1, 1, ("int8",)), (8, 1, ("int64",))]
    allm = [(1, 0, XDT_ALL), (8, 0, XDT_ALL), (32, 0, XDT_ALL),
            (1, 1, XDT_ALL), (8, 1, XDT_ALL)]
    # n = 2: extended boundary alphabet, every mode, every x dtype
    _public(ctx, agg, "public_n2_V2", 2, V_2, False, allm)
    # n = 3: all 8^6 matrices over V_Q
    _public(ctx, agg, "public_n3_VQ", 3, V_Q, False,
            full if quick else allm)
    # n = 4 over {0, 1, B}
    for B in B_4S:
        _public(ctx, agg, f"public_n4_sym_B{B}", 4, [0, 1, B], True, allm)
    if quick:
        _public(ctx, agg, "public_n4_asym_B127", 4, [0, 1, 127], False,
                [(1, 0, ("int8",))])
        ctx.cap("quick: asymmetric 4-city matrices over {0,1,B} go through "
                "the public API only for B=127 with int8 tours (all B through"
                " the kernel path); thorough runs all B")
    else:
        for B in B_4:
            _public(ctx, agg, f"public_n4_asym_B{B}", 4, [0, 1, B], False,
                    [(1, 0, XDT_ALL), (8, 1, ("int8",))])
        _public(ctx, agg, "public_n3_V3T", 3, V_3T, False,
                [(1, 0, ("int8", "int64")), (8, 0, ("int8",))])
        for B in (127, 2 ** 31 - 1):
            _public(ctx, agg, f"public_n5_sym_B{B}", 5, [0, 1, B], True,
                    [(1, 0, ("int8", "uint16"))])
    # kernel path
    by = [0, 0, 0, 0]
    parts = [(3, V_Q, False)] + [(4, [0, 1, B], False) for B in B_4]
    if not quick:
        parts += [(4, [0, 1, B - 1, B], False) for B in
                  (31, 32, 127, 8191, 8192, 2 ** 29 - 1, 2 ** 29, 10 ** 12)]
        parts += [(4, [0, 1, 2, 31, 32], False)]
        parts += [(5, [0, 1, B], True) for B in B_4]
        parts += [(5, [0, B], False) for B in (25, 26, 6553, 6554, 10 ** 12)]
    for n, values, symmetric in parts:
        r = _kernel(ctx, f"kernel_n{n}_{'sym' if symmetric else 'asym'}_"
                    f"{'_'.join(str(v) for v in values)}", n, values,
                    symmetric)
        by = [x + y for x, y in zip(by, r)]
    if agg["accepted"] < 2:
        raise HarnessError("no instance was accepted: the check is vacuous")
    classes = len(agg["dtypes"]) + (1 if agg["sym"] else 0) \
        + (1 if agg["sym"] < agg["accepted"] else 0)
    ctx.cov["distinct_nontrivial"] = classes + len(agg["lengths"])
    ctx.cov["rule"] = (
        "matrices = every assignment of alphabet values to the off-diagonal "
        "cells (index order, simplest first), x all n! tours x listed tour "
        "dtypes; distinct_nontrivial = storage dtypes seen + symmetry "
        "classes seen + number of distinct tour-length values observed "
        "through the public API (capped at 20000)")
    ctx.part("public_totals", accepted_instances=agg["accepted"],
             storage_dtypes=agg["dtypes"], symmetric=agg["sym"],
             lower_bound_attained=agg["tight_lb"],
             upper_bound_attained=agg["tight_ub"],
             distinct_lengths=len(agg["lengths"]),
             storage_narrower_than_documented=agg.get("narrower", 0))
    ctx.part("kernel_totals", stored_as_int8_16_32_64=by)
    for m, mult in (([[0, 127, 1], [2, 0, 32768], [10 ** 12, 0, 0]], 1),
                    ([[0, 127], [1, 0]], 8)):
        from moptipyapps.tsp.instance import Instance
        inst = Instance("s", 0, np.array(m), mult)
        ctx.sample({"matrix": m, "multiplier": mult,
                    "dtype": str(inst.dtype),
                    "bounds": [inst.tour_length_lower_bound,
                               inst.tour_length_upper_bound],
                    "symmetric": inst.is_symmetric,
                    "lengths_model": sorted(set(
                        M.all_tour_lengths(m).values()))})
    ctx.assume("matrices handed over as int64 arrays; n <= 4 (5 for "
               "symmetric {0,1,B}) and values from the listed boundary "
               "alphabets only")
    ctx.assume("supplied lower bound is either 0 (instance derives it) or "
               "the true optimum (computed by enumeration); nothing is "
               "claimed for a supplied bound above the optimum")


def replay(ctx: Ctx, rep: dict) -> bool:
    m = rep["matrix"]
    if rep.get("kind") == "kernel":
        got, exp, st = kernel_case(m, rep["perm"], rep["xdtype"])
        print(f"kernel tour_length on {st} matrix: observed={got} "
              f"expected={exp}")
        return got == exp
    r = check_case(m, rep["mult"], rep["lbmode"],
                   [rep["xdtype"]] if "xdtype" in rep else XDT_ALL)
    print(r)
    return r[0] != "bad"
