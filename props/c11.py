"""
C11: the controller figure of merit is a pure function of the parameters.

Explicit-state exploration of operation histories on ONE live objective
object (``FigureOfMerit`` / ``FigureOfMeritLE``, created with
``supports_model_mode=True``). A state is the history that reaches it; it is
rebuilt by replay on a freshly created object. Operations (11):

* ``ev0 .. ev4``  evaluate(x) for x in {zero vector, stabilising, mildly
  diverging, strongly diverging, immediately insane},
* ``init``        initialize(),
* ``model1/2``    set_model(m) for two surrogate equation functions,
* ``raw``         set_raw(),
* ``diff``        get_differentials(),
* ``patch``       the surrogate optimizer's trick: replace / restore the
  object's ``initialize`` by a no-op.

Reference model: canonical key (mode, initialize-patched, tuple of the x of
the raw-mode evaluations since the last effective initialize). The value of
evaluate(x) is the value a freshly created objective returns in that mode
(bitwise) and must equal the documented combination of the per-training-case
figures of merit, recomputed independently from ``run_ode`` rows
(``models/ode.py``). The recorded training data is the concatenation, in
order, of the per-training-case (state+control, differential) tables of the
raw-mode evaluations, each truncated at the training case that produced the
failure value.

quick: every history of length <= 3 (no deduplication). thorough: BFS over
the keys to depth 5; every (key, operation) transition is executed from two
different histories (when two exist) and the observations are compared with
the model and with each other.
"""
import hashlib
import itertools

import numpy as np

from mc.core import Ctx, HarnessError, pmap
from models import ode as M

STEPS = 30
TIME = 3.0
CALL_HORIZON = 100_000      # controller calls per evaluate()
OPS = [("ev", 0), ("ev", 1), ("ev", 2), ("ev", 3), ("ev", 4), ("init",),
       ("model", 1), ("model", 2), ("model", 3), ("raw",), ("diff",),
       ("patch",)]
XNAMES = ("zero", "stabilising", "mildly-diverging", "strongly-diverging",
          "immediately-insane")
INIT = (0, False, ())
CONFIGS = [(s, f, v) for (s, f) in (("stuart_landau", "linear"),
                                    ("stuart_landau", "ann"),
                                    ("lorenz", "linear"),
                                    ("lorenz", "ann"),
                                    ("3oscillators", "ann"))
           for v in ("mean", "le")]
_A = {2: [0.1, -0.05], 3: [1.0, -1.0, 2.0],
      6: [0.1, 0.0, 0.1, 0.0, 0.1, 0.0]}
_B = {2: [-0.4, 0.3], 3: [-3.0, 2.0, 10.0],
      6: [-0.2, 0.08, 0.2, 0.0, 0.16, 0.03]}


class Horizon(Exception):
    """An evaluation exceeded the call horizon."""


def opname(op):
    if op[0] == "ev":
        return f"evaluate({XNAMES[op[1]]})"
    if op[0] == "mev":
        return f"model_objective.evaluate(q{op[1]})"
    return {"init": "initialize()", "raw": "set_raw()",
            "begin": "model_objective.begin()",
            "end": "model_objective.end()",
            "diff": "get_differentials()",
            "patch": "toggle initialize:=no-op"}.get(
        op[0], f"set_model(m{op[-1]})")


def hname(h):
    return [opname(tuple(o)) for o in h]


# ------------------------------------------------------------------- model
def model_step(st, op):
    mode, patched, coll = st
    k = op[0]
    if k == "ev":
        if mode == 0:
            coll = coll + (op[1],)
    elif k == "init":
        if not patched:
            mode, coll = 0, ()
    elif k == "model":
        mode = op[1]
    elif k == "raw":
        mode = 0
    elif k == "patch":
        patched = not patched
    return (mode, patched, coll)


def model_graph(depth):
    """BFS over the keys: key -> (depth, first (shortest) history)."""
    info = {INIT: (0, ())}
    frontier = [INIT]
    for d in range(1, depth + 1):
        nxt = []
        for st in frontier:
            h = info[st][1]
            for op in OPS:
                t = model_step(st, op)
                if t not in info:
                    info[t] = (d, h + (op,))
                    nxt.append(t)
        frontier = nxt
    return info


def other_histories(info, depth, want=2):
    """
    Up to ``want`` further histories (length <= depth) per key.

    Candidates are first-history(source) + operation for every edge of the
    key graph that ends in the key and is not its first history; those with
    the most different kinds of operations (mode switches, consolidation of
    the data, evaluations that do not count) are preferred.
    """
    cand = {}
    for st, (d, h) in info.items():
        if d >= depth:
            continue
        for op in OPS:
            t = model_step(st, op)
            hh = h + (op,)
            if hh != info[t][1] and len(hh) <= info[t][0] + 2:
                cand.setdefault(t, []).append(hh)
    res = {}
    for t, hs in cand.items():
        hs.sort(key=lambda hh: (-len({o[0] for o in hh}), len(hh), hh))
        res[t] = hs[:want]
    return res


# -------------------------------------------------------------- real objects
class Config:
    """One (system, controller, variant): instance, alphabets, model data."""

    def __init__(self, sysname, fam, variant):
        from moptipyapps.dynamic_control.controller import Controller
        from moptipyapps.dynamic_control.instance import Instance
        from moptipyapps.dynamic_control.objective import (
            FigureOfMerit,
            FigureOfMeritLE,
        )
        from moptipyapps.dynamic_control.system import System
        from props.c10 import get_system
        self.name = (sysname, fam, variant)
        big = get_system(sysname)
        n = big.state_dims
        zero = [0.0] * n
        train = [zero, _A[n], _B[n]] if fam == "linear" \
            else [_A[n], zero, _B[n]]
        sm = System(big.name, n, big.control_dims, big.state_dim_mod,
                    big.state_dims_in_j, big.gamma,
                    big.test_starting_states[:1], np.array(train, float),
                    10, 1.0, STEPS, TIME, (0,))
        sm.equations = big.equations
        if fam == "linear":
            from moptipyapps.dynamic_control.controllers.linear import linear
            ctrl = linear(sm)
        else:
            from moptipyapps.dynamic_control.controllers.ann import anns
            ctrl = tuple(anns(sm))[2]
        real = ctrl.controller
        self.calls = 0
        self.limit = CALL_HORIZON

        def counted(state, t, params, out):
            self.calls += 1
            if self.calls > self.limit:
                raise Horizon(f"more than {CALL_HORIZON} controller calls "
                              "in one evaluation")
            real(state, t, params, out)
        self.ctrl = Controller(ctrl.name, n, ctrl.control_dims,
                               ctrl.param_dims, counted)
        self.system = sm
        self.inst = Instance(sm, self.ctrl)
        self.cls = FigureOfMerit if variant == "mean" else FigureOfMeritLE
        self.variant = variant
        self.n = n
        self.cd = ctrl.control_dims
        self.train = train
        self.xs = [np.array(x, float)
                   for x in x_alphabet(fam, n, ctrl.param_dims)]

        def m1(state, _t, control, out):
            for i in range(n):
                out[i] = control[0] - state[i]

        def m2(state, t, control, out):
            for i in range(n):
                out[i] = 0.5 * state[(i + 1) % n] - 0.25 * state[i]
            out[n - 1] += 0.5 * control[0] + 0.01 * t
        # model 3 is the 'perfect surrogate': the system's own equations
        # handed over as a model (still model mode: nothing is recorded)
        self.eqs = {0: sm.equations, 1: m1, 2: m2, 3: sm.equations}
        self.peek_ok = True
        self.probing = False
        self.val = {}
        self.sc = {}
        self.df = {}
        self.rows = {}
        self.problems = []

    def fresh(self):
        return self.cls(self.inst, True)

    def reset_calls(self):
        self.calls = 0

    # ---- reference data (built from run_ode rows with models/ode.py)
    def build_model(self):
        from moptipyapps.dynamic_control import ode
        sm = self.system
        for mode in (0, 1, 2, 3):
            for k, x in enumerate(self.xs):
                js_ = []
                scs = []
                dfs = []
                for start in self.train:
                    self.reset_calls()
                    res = ode.run_ode(np.array(start, float), self.eqs[mode],
                                      self.ctrl.controller, x.copy(), self.cd,
                                      STEPS, TIME)
                    rows = res.tolist()
                    j = M.j_float(rows, self.n, sm.state_dims_in_j, sm.gamma)
                    js_.append(j)
                    if not 0.0 <= j <= M.J_MAX:
                        break
                    a, b = M.diff_model(rows, self.n)
                    scs.append(np.array(a, float).reshape(
                        len(a), self.n + self.cd))
                    dfs.append(np.array(b, float).reshape(len(b), self.n))
                exp, failed = M.combine(js_, self.variant)
                vals = []
                try:
                    for with_init in (False, True):
                        f = self.fresh()
                        if with_init:
                            f.initialize()
                        if mode:
                            f.set_model(self.eqs[mode])
                        self.reset_calls()
                        vals.append(f.evaluate(x.copy()))
                except Horizon:
                    raise
                except Exception as e:  # noqa
                    # a fresh objective that cannot be switched / evaluated
                    self.problems.append((
                        f"fresh object|raises {type(e).__name__}",
                        f"mode={'raw' if mode == 0 else f'model m{mode}'} "
                        f"x={XNAMES[k]}: a freshly created objective raises "
                        f"{type(e).__name__}: {e} "
                        f"({'after' if len(vals) else 'without'} "
                        "initialize())"))
                    self.val[(mode, k)] = None
                    if mode == 0:
                        self.sc[k] = scs
                        self.df[k] = dfs
                        self.rows[k] = sum(len(a) for a in scs)
                    continue
                v = vals[0]
                what = f"mode={'raw' if mode == 0 else f'model m{mode}'} " \
                       f"x={XNAMES[k]} {x.tolist()}"
                if not isinstance(v, float):
                    self.problems.append((
                        "evaluate|fresh object|not a float",
                        f"{what}: returns {v!r}"))
                if vals[0] != vals[1]:
                    self.problems.append((
                        "evaluate|fresh object|initialize() changes the "
                        "value", f"{what}: {vals[0]!r} without and "
                        f"{vals[1]!r} with initialize()"))
                if failed:
                    if v != M.FAIL_J:
                        self.problems.append((
                            "evaluate|fresh object|failure value expected",
                            f"{what}: per-case J {js_} -> expected 1e200, "
                            f"got {v!r}"))
                elif not (0.0 <= v <= M.J_MAX) or not M.rel_close(v, exp):
                    self.problems.append((
                        f"evaluate|fresh object|not the documented "
                        f"combination ({self.variant}) of the per-case J",
                        f"{what}: per-case J {js_} -> expected {exp!r}, "
                        f"got {v!r}"))
                self.val[(mode, k)] = v
                if mode == 0:
                    self.sc[k] = scs
                    self.df[k] = dfs
                    self.rows[k] = sum(len(a) for a in scs)

    def expected_data(self, coll):
        a = b"".join(x.tobytes() for k in coll for x in self.sc[k])
        b = b"".join(x.tobytes() for k in coll for x in self.df[k])
        return sum(self.rows[k] for k in coll), a, b


def x_alphabet(fam, n, p):
    if fam == "linear":
        return [[0.0] * p,
                [0.0, -1.0] if p == 2 else [-1.0] * p,
                [(30.0, -30.0, 30.0)[i] for i in range(p)],
                [1e9] * p, [1e12] * p]

    def ann(hb, hw, mult, ob, ow, alt):
        v = []
        for j in range(2):
            v.append(hb[j])
            v += [hw[j] * ((-1.0 if i % 2 else 1.0) if alt else 1.0)
                  for i in range(n)]
        return v + [mult, ob, ow[0], ow[1]]
    xs = [[0.0] * p,
          ann([0.0, 0.0], [1.0, 0.5], -1.0, 0.0, [1.0, 1.0], True),
          ann([0.1, -0.1], [1.0, 0.5], 30.0, 0.0, [1.0, -1.0], True),
          ann([0.0, 0.0], [1e-3, 1e-3], 1e12, 0.0, [1.0, 1.0], False),
          ann([0.0, 0.0], [1.0, 0.5], 1e12, 1.0, [1.0, 1.0], True)]
    if any(len(x) != p for x in xs):
        raise HarnessError("ANN parameter layout changed")
    return xs


_CFG = {}


def get_config(name):
    name = tuple(name)
    if name not in _CFG:
        c = Config(*name)
        c.build_model()
        _CFG[name] = c
        # Is the recorded data still kept where peek() looks? Decided once,
        # before any exploration, by comparing peek() with the public
        # get_differentials() on short histories.
        c.probing = True
        probe = [h for d in (1, 2) for h in itertools.product(OPS, repeat=d)]
        probe += [(("ev", 0), ("diff",), a) for a in OPS]
        probe += [(("ev", 0), ("diff",), ("init",), ("ev", 0)),
                  (("ev", 0), ("diff",), ("ev", 0), ("diff",))]
        for h in probe:
            if not c.peek_ok:
                break
            drive(c, h)
        c.probing = False
    return _CFG[name]


def _nop():
    """Do nothing (the optimizer's replacement of initialize)."""


def digest(*parts):
    h = hashlib.blake2b(digest_size=12)
    for p in parts:
        h.update(p if isinstance(p, bytes) else repr(p).encode())
        h.update(b"|")
    return h.hexdigest()


def peek(obj):
    """Read the recorded data without changing the object (or None)."""
    try:
        a = obj._FigureOfMerit__collection_sc
        b = obj._FigureOfMerit__collection_df
    except AttributeError:
        return None
    if a is None or b is None:
        return None
    return (sum(len(x) for x in a),
            b"".join(np.asarray(x, float).tobytes() for x in a),
            b"".join(np.asarray(x, float).tobytes() for x in b))


def confirm_data(cfg, history, exp):
    """
    Does get_differentials() after `history` on a fresh object return exp?

    Used when the peek at the private lists disagrees with the model: only
    the public observation decides.
    """
    saved = cfg.peek_ok
    cfg.peek_ok = False
    try:
        obj = cfg.fresh()
        orig_init = obj.initialize
        st = INIT
        for op in history:
            op = tuple(op)
            try:
                if op[0] == "ev":
                    cfg.reset_calls()
                    obj.evaluate(cfg.xs[op[1]].copy())
                elif op[0] == "init":
                    obj.initialize()
                elif op[0] == "model":
                    obj.set_model(cfg.eqs[op[1]])
                elif op[0] == "raw":
                    obj.set_raw()
                elif op[0] == "patch":
                    setattr(obj, "initialize", orig_init if st[1] else _nop)
                elif op[0] == "diff":
                    try:
                        obj.get_differentials()
                    except ValueError:
                        pass
            except Exception:  # noqa
                return False
            st = model_step(st, op)
        try:
            sc, df = obj.get_differentials()
            sc = np.asarray(sc, float)
            df = np.asarray(df, float)
            got = (len(sc), sc.tobytes(), df.tobytes())
        except ValueError:
            got = (0, b"", b"")
        except Exception:  # noqa
            return False
        return got == tuple(exp)
    finally:
        cfg.peek_ok = saved


def drive(cfg, history):
    """
    Replay a history on a fresh object, comparing every step with the model.

    Returns (steps, problems): steps = [(key before, op, observation
    digest)], problems = [(signature, text)]; the text names the step.
    """
    obj = cfg.fresh()
    orig_init = obj.initialize
    st = INIT
    steps = []
    probs = []
    nev = 0
    vname = cfg.cls.__name__
    for i, op in enumerate(history):
        op = tuple(op)
        mode = st[0]
        mname = "raw" if mode == 0 else "model"
        nxt = model_step(st, op)
        obs = None
        try:
            if op[0] == "ev":
                nev += 1
                cfg.reset_calls()
                x = cfg.xs[op[1]].copy()
                v = obj.evaluate(x)
                obs = ("v", v)
                exp = cfg.val[(mode, op[1])]
                if x.tolist() != cfg.xs[op[1]].tolist():
                    probs.append((f"{vname}|evaluate|modifies x",
                                  f"step {i}: x became {x.tolist()}"))
                if not (isinstance(v, float) and v == exp):
                    probs.append((
                        f"{vname}|evaluate|value differs from a fresh "
                        f"object's ({mname} mode)",
                        f"step {i} {opname(op)} returns {v!r}, a freshly "
                        f"created objective returns {exp!r}"))
                if not (isinstance(v, float)
                        and (0.0 <= v <= M.J_MAX or v == M.FAIL_J)):
                    probs.append((f"{vname}|evaluate|value outside "
                                  "[0,1e100] and not 1e200",
                                  f"step {i} {opname(op)} returns {v!r}"))
            elif op[0] == "init":
                obj.initialize()
            elif op[0] == "model":
                obj.set_model(cfg.eqs[op[1]])
            elif op[0] == "raw":
                obj.set_raw()
            elif op[0] == "patch":
                setattr(obj, "initialize", orig_init if st[1] else _nop)
            elif op[0] == "diff":
                rows, ea, eb = cfg.expected_data(nxt[2])
                try:
                    sc, df = obj.get_differentials()
                    sc = np.asarray(sc, float)
                    df = np.asarray(df, float)
                    got = (len(sc), sc.tobytes(), df.tobytes())
                    shape_ok = (len(sc) == len(df)) and (
                        len(sc) == 0 or (sc.shape[1] == cfg.n + cfg.cd
                                         and df.shape[1] == cfg.n))
                except ValueError:
                    got = (0, b"", b"")     # loud refusal: nothing recorded
                    shape_ok = True
                obs = ("d", got[0], digest(got[1], got[2]))
                if got != (rows, ea, eb) or not shape_ok:
                    probs.append((
                        f"{vname}|get_differentials|not the data of the "
                        "real-system evaluations since initialize",
                        f"step {i}: returns {got[0]} rows, expected {rows} "
                        f"rows (evaluations {[XNAMES[k] for k in nxt[2]]})"
                        + ("" if got[0] != rows else " with other values")))
        except Horizon as e:
            probs.append((f"{vname}|{op[0]}|no termination within the call "
                          "horizon", f"step {i} {opname(op)}: {e}"))
            return steps, probs, nev
        except HarnessError:
            raise
        except Exception as e:  # noqa
            probs.append((f"{vname}|{op[0]}|raises {type(e).__name__} "
                          f"({mname} mode)", f"step {i} {opname(op)}: {e!r}"))
            return steps, probs, nev
        pk = peek(obj) if cfg.peek_ok else None
        if pk is not None:
            exp = cfg.expected_data(nxt[2])
            if pk != exp and confirm_data(cfg, history[:i + 1], exp):
                # the private lists are no longer where the data lives (the
                # public get_differentials() of a replayed object returns
                # what is expected): stop looking at them
                if not cfg.probing:
                    raise HarnessError(
                        "the private data lists disagree with "
                        "get_differentials() only after "
                        f"{hname(history[:i + 1])}: not found by the probe")
                cfg.peek_ok = False
                pk = None
        if pk is not None:
            exp = cfg.expected_data(nxt[2])
            if pk != exp:
                grew = "grew" if pk[0] > exp[0] else (
                    "shrank" if pk[0] < exp[0] else "changed")
                probs.append((
                    f"{vname}|recorded data {grew} during {op[0]} "
                    f"({mname} mode)",
                    f"step {i} {opname(op)}: the object holds {pk[0]} "
                    f"recorded rows, expected {exp[0]} (real-system "
                    f"evaluations {[XNAMES[k] for k in nxt[2]]})"
                    + ("" if pk[0] != exp[0] else " with other values")))
            obs = (obs, pk[0], digest(pk[1], pk[2]))
        steps.append((st, op, digest(obs)))
        st = nxt
    return steps, probs, nev


# ------------------------------------------------------------------ workers
def quick_job(a):
    name, hs = a
    cfg = get_config(name)
    out = {"name": name, "hist": 0, "ops": 0, "evals": 0, "viol": [],
           "obs": {}, "keys": set(), "distinct": set()}
    seen = set()
    for h in hs:
        steps, probs, nev = drive(cfg, h)
        out["hist"] += 1
        out["ops"] += len(h)
        out["evals"] += nev
        for i, (st, op, dg) in enumerate(steps):
            out["obs"].setdefault((st, op), {}).setdefault(dg, h[:i + 1])
            out["distinct"].add(dg)
        st = INIT
        for op in h:
            st = model_step(st, op)
        out["keys"].add(st)
        for sig, text in probs:
            if sig not in seen:
                seen.add(sig)
                out["viol"].append((sig, text, list(h)))
    out["peek"] = cfg.peek_ok
    return out


def thorough_job(a):
    """a = (config name, [(key, [history, ...])]): expand every key."""
    name, items = a
    cfg = get_config(name)
    out = {"name": name, "hist": 0, "ops": 0, "evals": 0, "viol": [],
           "trans": 0, "twice": 0, "distinct": set()}
    seen = set()
    for key, hs in items:
        for op in OPS:
            dgs = []
            for h in hs:
                hh = tuple(h) + (op,)
                steps, probs, nev = drive(cfg, hh)
                out["hist"] += 1
                out["ops"] += len(hh)
                out["evals"] += nev
                for sig, text in probs:
                    if sig not in seen:
                        seen.add(sig)
                        out["viol"].append((sig, text, list(hh)))
                if len(steps) == len(hh):
                    if steps[-1][0] != key:
                        raise HarnessError("history does not lead to key")
                    dgs.append(steps[-1][2])
                    out["distinct"].add(steps[-1][2])
            out["trans"] += 1
            if len(dgs) >= 2:
                out["twice"] += 1
                if len(set(dgs)) > 1:
                    sig = (f"{cfg.cls.__name__}|{op[0]}|equal-key states "
                           "differ on the next output")
                    if sig not in seen:
                        seen.add(sig)
                        out["viol"].append((
                            sig, f"after {[hname(h) for h in hs]} (same "
                            "mode and recorded evaluations) "
                            f"{opname(op)} is observed differently",
                            list(hs[-1]) + [op]))
    out["peek"] = cfg.peek_ok
    return out


# -------------------------------------------- the model-training objective
# ModelObjective pulls the recorded data with begin() and evaluates model
# parameterisations on it until end().  Histories on one (FigureOfMerit,
# ModelObjective) pair; the value of evaluate(q) must be the one a fresh
# pair returns after the real-system evaluations that preceded the LAST
# begin() followed by begin().
MO_OPS = [("ev", 0), ("ev", 1), ("begin",), ("end",), ("mev", 0),
          ("mev", 1)]
MO_INIT = ((), None)


def mo_step(st, op):
    """(recorded evaluations, data pulled by the last begin or None)."""
    coll, begun = st
    if op[0] == "ev":
        return coll + (op[1],), begun
    if op[0] == "begin":
        return coll, coll
    if op[0] == "end":
        return coll, None
    return st


def mo_enabled(st, op):
    if op[0] == "begin":
        return len(st[0]) > 0       # begin() without any data: unspecified
    if op[0] == "mev":
        return st[1] is not None    # evaluate() outside begin()..end()
    return True


def mo_histories(depth):
    out = []

    def rec(h, st):
        if h:
            out.append(tuple(h))
        if len(h) >= depth:
            return
        for op in MO_OPS:
            if mo_enabled(st, op):
                h.append(op)
                rec(h, mo_step(st, op))
                h.pop()
    rec([], MO_INIT)
    return out


def mo_model(cfg):
    from moptipyapps.dynamic_control.controllers.ann import make_ann
    if not hasattr(cfg, "mo"):
        cfg.mo = make_ann(cfg.n + cfg.cd, cfg.n, [2])
        p = cfg.mo.param_dims
        cfg.mo_q = [np.zeros(p), np.array([0.1 * (i % 5) - 0.2
                                           for i in range(p)])]
        cfg.mo_ref = {}
    return cfg.mo


def mo_pair(cfg):
    from moptipyapps.dynamic_control.model_objective import ModelObjective
    real = cfg.fresh()
    return real, ModelObjective(real, mo_model(cfg))


def mo_reference(cfg, begun, j):
    """evaluate(q_j) of a fresh pair: evaluations `begun`, begin()."""
    key = (begun, j)
    if key not in cfg.mo_ref:
        real, mobj = mo_pair(cfg)
        for k in begun:
            cfg.reset_calls()
            real.evaluate(cfg.xs[k].copy())
        mobj.begin()
        cfg.mo_ref[key] = float(mobj.evaluate(cfg.mo_q[j].copy()))
    return cfg.mo_ref[key]


def mo_drive(cfg, history):
    """-> (problems, number of evaluations, observations)."""
    real, mobj = mo_pair(cfg)
    st = MO_INIT
    probs = []
    nev = 0
    obs = []
    for i, op in enumerate(history):
        op = tuple(op)
        try:
            if op[0] == "ev":
                nev += 1
                cfg.reset_calls()
                v = real.evaluate(cfg.xs[op[1]].copy())
                if v != cfg.val[(0, op[1])]:
                    probs.append((
                        f"{cfg.cls.__name__}|evaluate|value differs from a "
                        "fresh object's (raw mode, next to a model "
                        "objective)", f"step {i} {opname(op)} returns "
                        f"{v!r}, a fresh objective "
                        f"{cfg.val[(0, op[1])]!r}"))
            elif op[0] == "begin":
                mobj.begin()
            elif op[0] == "end":
                mobj.end()
            else:
                nev += 1
                q = cfg.mo_q[op[1]].copy()
                v = mobj.evaluate(q)
                obs.append(v)
                exp = mo_reference(cfg, st[1], op[1])
                if not (isinstance(v, float) and v == exp):
                    probs.append((
                        "ModelObjective|evaluate|value differs from a fresh "
                        "object's on the data of the last begin()",
                        f"step {i}: evaluate(q{op[1]}) returns {v!r}; a "
                        "fresh objective pair after the real evaluations "
                        f"{[XNAMES[k] for k in st[1]]} and begin() returns "
                        f"{exp!r}"))
        except HarnessError:
            raise
        except Exception as e:  # noqa
            probs.append((f"ModelObjective|{op[0]}|raises "
                          f"{type(e).__name__}",
                          f"step {i} {opname(op)}: {e!r}"))
            break
        st = mo_step(st, op)
    return probs, nev, obs


def mo_job(a):
    name, hs = a
    cfg = get_config(name)
    out = {"name": name, "hist": 0, "ops": 0, "evals": 0, "viol": [],
           "distinct": set(), "keys": set()}
    seen = set()
    for h in hs:
        probs, nev, obs = mo_drive(cfg, h)
        out["hist"] += 1
        out["ops"] += len(h)
        out["evals"] += nev
        out["distinct"] |= set(obs)
        st = MO_INIT
        for op in h:
            st = mo_step(st, op)
        out["keys"].add(st)
        for sig, text in probs:
            if sig not in seen:
                seen.add(sig)
                out["viol"].append((sig, text, list(h)))
    return out


def mo_explore(ctx, configs, depth):
    hs = mo_histories(depth)
    jobs = [(name, ch) for name in configs
            for ch in chunks(hs, max(1, ctx.jobs * 2 // len(configs) + 1))]
    outs = pmap(mo_job, jobs, ctx.jobs)
    states = 0
    for name in configs:
        mine = [o for o in outs if tuple(o["name"]) == tuple(name)]
        keys = set()
        done = set()
        for o in mine:
            keys |= o["keys"]
            for sig, text, h in o["viol"]:
                if sig in done:
                    continue
                done.add(sig)
                cfg = get_config(name)
                again = {p[0] for p in mo_drive(cfg, h)[0]}
                if sig not in again:
                    sig += "|not reproducible"
                ctx.violation(
                    sig, f"{name[0]} + {name[1]} controller, "
                    f"{cfg.cls.__name__} with a ModelObjective (ANN model, "
                    f"one hidden layer of 2): history {hname(h)}: {text}",
                    {"config": list(name), "engine": "model_objective",
                     "history": [list(o) for o in h]})
        nh = sum(o["hist"] for o in mine)
        ne = sum(o["evals"] for o in mine)
        states += len(keys)
        ctx.add("evaluations", ne)
        ctx.add("traces_validated_against_impl", nh)
        ctx.part("model_objective_" + "_".join(name), histories=nh,
                 operations_applied=sum(o["ops"] for o in mine),
                 evaluate_calls=ne, keys_reached=len(keys),
                 max_depth=depth, distinct_model_objective_values=len(
                     set().union(*[o["distinct"] for o in mine])))
    ctx.add("states", states)
    ctx.log(f"model objective: {len(hs)} histories to depth {depth} on "
            f"{len(configs)} configurations")
    return len(hs)


# ------------------------------------------------ the surrogate optimizer
# The bundled SurrogateOptimizer drives set_model / set_raw itself. All
# members of (objective variant) x (fancy logs) x (log file) x (budget =
# 0..2 surrogate rounds) are run with random sampling as inner algorithm;
# afterwards the real-system values, the system object and fresh objectives
# must be what they were before the run.
def so_job(a):
    import os
    import tempfile

    from moptipy.algorithms.random_sampling import RandomSampling
    from moptipy.api.execution import Execution
    from moptipy.operators.vectors.op0_uniform import Op0Uniform
    from moptipyapps.dynamic_control.objective import (
        FigureOfMerit,
        FigureOfMeritLE,
    )
    from moptipyapps.dynamic_control.surrogate_optimizer import (
        SurrogateOptimizer,
    )
    from moptipyapps.dynamic_control.system_model import SystemModel
    name, fancy, with_log, max_fes = a
    cfg = get_config(name)
    cfg.limit = 10 ** 9
    system = cfg.system
    eq0 = system.equations
    name0 = system.name
    inst = SystemModel(system, cfg.ctrl, mo_model(cfg))
    space = inst.controller.parameter_space()
    probes = [cfg.xs[0], cfg.xs[1]]
    what = (f"SurrogateOptimizer on {name[0]} + {name[1]} controller, "
            f"{cfg.cls.__name__}, fancy_logs={fancy}, "
            f"{'with' if with_log else 'without'} log file, {max_fes} FEs "
            "(warm-up 2, random sampling inside)")

    def sampling(sp):
        return RandomSampling(Op0Uniform(sp))
    ref = {}
    for cls in (FigureOfMerit, FigureOfMeritLE):
        f = cls(inst, False)
        f.initialize()
        ref[cls] = [f.evaluate(x.copy()) for x in probes]
    objective = cfg.cls(inst, True)
    probs = []
    from mc.core import CACHE_DIR
    td = tempfile.mkdtemp(prefix="c11so_", dir=CACHE_DIR)
    try:
        ex = Execution().set_max_fes(max_fes).set_objective(objective) \
            .set_solution_space(space).set_rand_seed(1234) \
            .set_algorithm(SurrogateOptimizer(
                inst, space, objective, fes_for_warmup=2,
                fes_for_training=8, fes_per_model_run=4, fancy_logs=fancy,
                model_training_algorithm=sampling,
                controller_training_algorithm=sampling))
        if with_log:
            ex.set_log_file(os.path.join(td, "run.txt"))
        try:
            import contextlib
            with open(os.devnull, "w") as dn, \
                    contextlib.redirect_stdout(dn), ex.execute() as process:
                process.get_consumed_fes()
        except Exception as e:  # noqa
            probs.append(("SurrogateOptimizer|the run ends with an "
                          f"exception ({type(e).__name__})",
                          f"{what}: {type(e).__name__}: {str(e)[:300]}"))
    finally:
        import shutil
        shutil.rmtree(td, ignore_errors=True)
    try:
        objective.set_raw()
        after = [objective.evaluate(x.copy()) for x in probes]
    except Exception as e:  # noqa
        after = f"{type(e).__name__}: {e}"
    if after != ref[cfg.cls]:
        probs.append(("SurrogateOptimizer|real-system values of the used "
                      "objective changed after the run",
                      f"{what}: evaluate on {[x.tolist() for x in probes]} "
                      f"gives {after}, before the run {ref[cfg.cls]}"))
    for cls in (FigureOfMerit, FigureOfMeritLE):
        f = cls(inst, False)
        f.initialize()
        fresh = [f.evaluate(x.copy()) for x in probes]
        if fresh != ref[cls]:
            probs.append(("SurrogateOptimizer|a fresh objective on the same "
                          "system returns other values after the run",
                          f"{what}: fresh {cls.__name__} gives {fresh}, "
                          f"before the run {ref[cls]}"))
    if system.equations is not eq0 or system.name != name0:
        probs.append(("SurrogateOptimizer|the system object was changed by "
                      "the run", f"{what}: system name {system.name!r} "
                      f"(was {name0!r}), equations replaced: "
                      f"{system.equations is not eq0}"))
        system.equations = eq0
        try:
            object.__setattr__(system, "name", name0)
        except Exception:  # noqa
            pass
    return a, probs


def so_explore(ctx, configs):
    jobs = [(name, fancy, log, fes) for name in configs
            for (fancy, log) in ((False, False), (False, True), (True, True))
            for fes in (3, 5)]
    outs = pmap(so_job, jobs, ctx.jobs)
    seen = set()
    for a, probs in outs:
        for sig, text in probs:
            if sig not in seen:
                seen.add(sig)
                ctx.violation(sig, text, {
                    "engine": "surrogate_optimizer", "config": list(a[0]),
                    "fancy": a[1], "log": a[2], "fes": a[3]})
    ctx.add("evaluations", len(jobs))
    ctx.add("traces_validated_against_impl", len(jobs))
    ctx.part("surrogate_optimizer_runs", runs=len(jobs),
             configurations=[list(c) for c in configs],
             alphabet="(fancy_logs, log file) in {(no, no), (no, yes), "
             "(yes, yes)} x budget in {3, 5} FEs")
    ctx.log(f"surrogate optimizer: {len(jobs)} runs")


def describe(name, h):
    return (f"{name[0]} + {name[1]} controller, "
            f"{'FigureOfMerit' if name[2] == 'mean' else 'FigureOfMeritLE'}"
            f", 3 training states, {STEPS} steps, T={TIME}: history "
            f"{hname(h)}")


def report(ctx, name, sig, text, h):
    cfg = get_config(name)
    _, probs, _ = drive(cfg, [tuple(o) for o in h])
    if sig not in {p[0] for p in probs} and "equal-key" not in sig:
        raise HarnessError(f"violation {sig} did not reproduce: "
                           f"{describe(name, h)}")
    ctx.violation(sig, f"{describe(name, h)}: {text}",
                  {"config": list(name), "history": [list(o) for o in h]})


def chunks(items, k):
    k = max(1, k)
    return [items[i::k] for i in range(k) if items[i::k]]


# ---------------------------------------------------------------------- run
def run(ctx: Ctx) -> None:
    configs = CONFIGS
    # reference data in the parent (workers inherit it through fork)
    for name in configs:
        cfg = get_config(name)
        for sig, text in cfg.problems:
            ctx.violation(f"{cfg.cls.__name__}|{sig}",
                          f"{describe(name, [])}: {text}",
                          {"config": list(name), "history": []})
        ctx.part("_".join(name), x_values={
            XNAMES[k]: cfg.val[(0, k)] for k in range(5)},
            recorded_rows_per_x={XNAMES[k]: cfg.rows[k] for k in range(5)})
    ctx.log("reference values and data built for "
            f"{len(configs)} configurations")
    depth = 3 if ctx.quick else 5
    states = transitions = 0
    distinct = set()
    if ctx.quick:
        hs = [h for d in range(1, depth + 1)
              for h in itertools.product(OPS, repeat=d)]
        # plus every history of four operations whose first three do not
        # evaluate (mode switches, initialize, the optimizer's patch) and
        # whose last one observes: evaluate(x) or get_differentials()
        quiet_ops = [o for o in OPS if o[0] not in ("ev", "diff")]
        observers = [o for o in OPS if o[0] in ("ev", "diff")]
        hs += [h + (o,) for h in itertools.product(quiet_ops, repeat=3)
               for o in observers]
        # and every history of four operations that starts with a recorded
        # evaluation (complete / cut short by a failure) whose data is
        # fetched (consolidated) at once
        hs += [(e, ("diff",), a, b) for e in (("ev", 0), ("ev", 3))
               for a in OPS for b in OPS]
        jobs = [(name, ch) for name in configs
                for ch in chunks(hs, max(1, ctx.jobs * 2 // len(configs)
                                         + 1))]
        outs = pmap(quick_job, jobs, ctx.jobs)
        for name in configs:
            mine = [o for o in outs if tuple(o["name"]) == tuple(name)]
            obs = {}
            keys = set()
            for o in mine:
                keys |= o["keys"]
                for k, d in o["obs"].items():
                    for dg, h in d.items():
                        obs.setdefault(k, {}).setdefault(dg, h)
                for sig, text, h in o["viol"]:
                    report(ctx, name, sig, text, h)
                distinct |= {(name, d) for d in o["distinct"]}
            multi = 0
            for (st, op), d in obs.items():
                if len(d) > 1:
                    multi += 1
                    h2 = list(d.values())
                    sig = (f"{get_config(name).cls.__name__}|{op[0]}|"
                           "equal-key states differ on the next output")
                    same = list(h2[0]) == list(h2[1])
                    ctx.violation(sig, f"{describe(name, h2[1])}: the last "
                                  f"operation {opname(op)} is observed "
                                  "differently " + (
                                      "on two fresh objects driven through "
                                      "this same history (not reproducible)"
                                      if same else
                                      f"than after {hname(h2[0])} (same "
                                      "mode and recorded evaluations)"),
                                  {"config": list(name),
                                   "history": [list(o) for o in h2[1]]})
            nh = sum(o["hist"] for o in mine)
            ne = sum(o["evals"] for o in mine)
            states += len(keys | {INIT})
            transitions += len(obs)
            ctx.add("evaluations", ne)
            ctx.add("traces_validated_against_impl", nh)
            ctx.part("_".join(name), histories=nh,
                     operations_applied=sum(o["ops"] for o in mine),
                     evaluate_calls=ne, keys_reached=len(keys | {INIT}),
                     key_op_transitions=len(obs), max_depth=depth,
                     key_op_with_differing_observations=multi)
    else:
        info = model_graph(depth)
        second = other_histories(info, depth)
        items = [(k, [h] + second.get(k, []))
                 for k, (d, h) in info.items() if d < depth]
        # deepest (most expensive) first, spread over the chunks
        items.sort(key=lambda it: -len(it[1][0]))
        jobs = [(name, ch) for name in configs
                for ch in chunks(items, max(2, ctx.jobs * 4
                                            // len(configs) + 1))]
        ctx.log(f"keys: {len(info)} to depth {depth}, {len(items)} "
                f"expanded, {sum(len(i[1]) for i in items)} histories; "
                f"{len(jobs)} jobs")
        outs = pmap(thorough_job, jobs, ctx.jobs)
        for name in configs:
            mine = [o for o in outs if tuple(o["name"]) == tuple(name)]
            for o in mine:
                for sig, text, h in o["viol"]:
                    report(ctx, name, sig, text, h)
                distinct |= {(name, d) for d in o["distinct"]}
            nh = sum(o["hist"] for o in mine)
            ne = sum(o["evals"] for o in mine)
            tr = sum(o["trans"] for o in mine)
            states += len(info)
            transitions += tr
            ctx.add("evaluations", ne)
            ctx.add("traces_validated_against_impl", nh)
            ctx.part("_".join(name), histories=nh,
                     operations_applied=sum(o["ops"] for o in mine),
                     evaluate_calls=ne, keys_reached=len(info),
                     keys_expanded=len(items), key_op_transitions=tr,
                     transitions_from_several_histories=sum(
                         o["twice"] for o in mine), max_depth=depth)
    if not all(o.get("peek", True) for o in outs):
        ctx.cap("the recorded data is no longer kept in the private lists "
                "the harness looks at after every operation (the public "
                "get_differentials() confirmed the expected data): data is "
                "only observed through get_differentials() operations")
    # the model-training objective on the same recorded data
    mo_cfgs = [CONFIGS[0], CONFIGS[3], CONFIGS[5], CONFIGS[8]] \
        if ctx.quick else CONFIGS
    mo_explore(ctx, mo_cfgs, 5 if ctx.quick else 6)
    so_explore(ctx, [CONFIGS[0], CONFIGS[1]] if ctx.quick
               else [CONFIGS[0], CONFIGS[1], CONFIGS[4], CONFIGS[5]])
    ctx.add("states", states)
    ctx.add("transitions", transitions)
    ctx.cov["distinct_nontrivial"] = len(distinct)
    ctx.cov["rule"] = (
        f"all operation histories over 11 operations to depth {depth} on one"
        " objective object per (system, controller, variant), "
        + ("every history replayed on a fresh object"
           if ctx.quick else "BFS over canonical keys (mode, initialize "
           "patched, recorded raw evaluations), every (key, operation) "
           "executed by replay from up to three different histories")
        + "; non-trivial = distinct observations (returned value / returned "
        "data / recorded data after the operation) per configuration")
    cfg = get_config(configs[ctx.seed % len(configs)])
    h = (("ev", 2), ("model", 1), ("ev", 3), ("raw",), ("ev", 1),
         ("diff",))
    st = INIT
    for op in h:
        st = model_step(st, op)
    ctx.sample({"config": list(cfg.name), "history": hname(h),
                "model_key": [st[0], st[1],
                              [XNAMES[k] for k in st[2]]],
                "violations": [p[0] for p in drive(cfg, h)[1]]})
    ctx.assume("parameter vectors only from the five-symbol alphabet per "
               "controller; instances rebuilt with 3 training states, 30 "
               f"steps, T={TIME}; two surrogate models (Python functions)")
    ctx.assume("get_differentials() on an object without recorded data "
               "raises ValueError; this is read as 'no data'")


def replay(ctx: Ctx, rep: dict) -> bool:
    name = tuple(rep["config"])
    cfg = get_config(name)
    for sig, text in cfg.problems:
        print(f"  {sig}: {text}")
    h = [tuple(o) for o in rep["history"]]
    print(describe(name, h))
    if rep.get("engine") == "surrogate_optimizer":
        _, probs = so_job((name, rep["fancy"], rep["log"], rep["fes"]))
        for sig, text in probs:
            print(f"  {sig}: {text}")
        return not probs
    if rep.get("engine") == "model_objective":
        probs = mo_drive(cfg, h)[0]
        for sig, text in probs:
            print(f"  {sig}: {text}")
        return not probs
    _, probs, _ = drive(cfg, h)
    for sig, text in probs:
        print(f"  {sig}: {text}")
    return not probs and not cfg.problems
