"""
C15: game permutations decode to consistent earliest-slot schedules.

Code under test: ``moptipyapps/ttp/game_encoding.py``
(``search_space_for_n_and_rounds``, the ``map_games`` kernel,
``GameEncoding.decode`` / ``GameEncoding.search_space``) with
``moptipyapps/ttp/game_plan.py`` as destination type.

Parts (all exhaustive within the stated bound, simplest first):

``id_table``      every game id of every n in 2..16 decoded alone by the real
                  decoder == row of the model's ordered-pair table.
``search_space``  every (n, rounds) in 2..16 x 1..10 except (2, 1): length,
                  pairing multiplicity, per-pairing and per-team balance.
``public_tree``   every prefix of every permutation with repetition through
                  ``GameEncoding.decode`` (one reused encoder + destination
                  pre-filled with 77, and a fresh encoder + fresh destination)
                  against the *interpreted* model.
``kernel_tree``   the same trees, and bigger ones, inside a numba driver that
                  calls the real ``map_games`` on every prefix against the
                  *compiled* incremental model.
``plan_bfs``      for bigger (n, rounds): breadth-first search over distinct
                  (partial plan, remaining multiset) states to a depth bound;
                  every edge is executed by the real kernel on (up to) two
                  different concrete prefixes that reach the state.
``full_family``   for every (n, rounds): a fixed family of complete
                  permutations (sorted, reversed, strides, circle order).
``reuse``         all ordered pairs of decodings on ONE encoder object and
                  ONE never-refilled destination.
"""
import importlib.util
from math import gcd

import numpy as np

from mc.core import Ctx, HarnessError, pmap
from models import games as G

N_MAX = 16
R_MAX = 10
FILL = 77

KIND = {1: "plan differs from the earliest-free-day model",
        11: "a plan cell is outside -n..n",
        12: "a team plays itself",
        13: "plan is not mutually consistent",
        14: "a team is named by two teams on one day",
        15: "a game is scheduled more often than the permutation has it"}

_DRV = {}
_INST = {}


# --------------------------------------------------------------------------
# real code access
# --------------------------------------------------------------------------
def real_space(n, rounds):
    from moptipyapps.ttp.game_encoding import search_space_for_n_and_rounds
    return search_space_for_n_and_rounds(n, rounds)


def multiset(n, rounds):
    """(distinct values, multiplicities, x dtype) of the real blueprint."""
    sp = real_space(n, rounds)
    bp = [int(v) for v in sp.blueprint]
    vals = sorted(set(bp))
    return vals, [bp.count(v) for v in vals], sp.dtype


def instance(n, rounds):
    """A real TTP instance (even n only, the constructor demands that)."""
    key = (n, rounds)
    if key not in _INST:
        from props import ttp_common as T
        ll = rounds * n - 1
        _INST[key] = T.make_instance(n, rounds, (1, ll, 1, ll, 0, ll))
    return _INST[key]


def y_dtype(n):
    from moptipy.utils.nputils import int_range_to_dtype
    return int_range_to_dtype(-n, n)


def decode_real(n, rounds, x, fill=FILL, enc=None, dest=None):
    """
    Run the real decoder on the game sequence ``x``.

    Even n: public API, ``GameEncoding(instance).decode(x, GamePlan)``.
    Odd n (no Instance can exist): the public kernel ``map_games`` on an
    array of the shape/dtype a GamePlan would have.
    ``fill=None`` leaves the fresh destination as allocated.
    """
    from moptipyapps.ttp.game_encoding import GameEncoding, map_games
    from moptipyapps.ttp.game_plan import GamePlan
    xa = np.array(x, real_space(n, rounds).dtype)
    if n % 2 == 0:
        inst = instance(n, rounds)
        if enc is None:
            enc = GameEncoding(inst)
        if dest is None:
            dest = GamePlan(inst)
        if fill is not None:
            dest.fill(fill)
        enc.decode(xa, dest)
        return np.array(dest, np.int64)
    y = np.empty(((n - 1) * rounds, n), y_dtype(n))
    if fill is not None:
        y.fill(fill)
    map_games(xa, y)
    return y.astype(np.int64)


def decode_model(n, rounds, x):
    """The interpreted reference model; returns (plan, dropped)."""
    days = (n - 1) * rounds
    ym = np.zeros((days, n), np.int64)
    dropped = G.decode_model(list(x), G.game_table(n), [0] * n, ym)
    return ym, dropped


def judge(n, y, ym, x):
    """0 if the observed plan ``y`` is right for ``x``, else a KIND key."""
    d = G.plan_defect(y, list(x), G.game_index(G.game_table(n), n),
                      np.zeros(n * (n - 1), np.int64))
    if d:
        return 10 + d
    if not np.array_equal(y, ym):
        return 1
    return 0


def check_case(n, rounds, x, fill=FILL):
    y = decode_real(n, rounds, x, fill)
    ym, _ = decode_model(n, rounds, x)
    return judge(n, y, ym, x), y, ym


def report_decode(ctx, n, rounds, x, path, fill=FILL):
    """Re-execute one failing decode and report it."""
    x = [int(v) for v in x]
    kind, y, ym = check_case(n, rounds, x, fill)
    if kind == 0:
        raise HarnessError(
            f"decode n={n} rounds={rounds} x={x} failed in {path} but not "
            "when re-executed through decode_real")
    vals, cnts, _ = multiset(n, rounds)
    rest = []
    for v, c in zip(vals, cnts):
        rest += [v] * (c - x.count(v))
    full = x + rest
    fk = check_case(n, rounds, full, fill)[0] if rest else kind
    tab = G.game_table(n)
    games = [f"{int(tab[g, 0]) + 1}v{int(tab[g, 1]) + 1}" for g in x]
    ctx.violation(
        f"decode|{KIND[kind]}",
        f"n={n} rounds={rounds} games(home v away)={games} x={x} "
        f"(destination pre-filled with {fill}) via {path}: observed plan "
        f"{y.tolist()} expected {ym.tolist()}"
        + (f"; completed to the full permutation {full}: "
           f"{KIND.get(fk, 'holds')}" if rest else ""),
        {"kind": "decode", "n": n, "rounds": rounds, "x": x, "fill": fill})


# --------------------------------------------------------------------------
# compiled model + drivers around the real kernel
# --------------------------------------------------------------------------
def drivers():
    """Compile (once per process) the numba drivers around ``map_games``."""
    if _DRV:
        return _DRV
    import numba
    from moptipyapps.ttp.game_encoding import map_games

    # a second copy of the model module whose functions are compiled, so that
    # the interpreted copy (models.games) stays pure Python
    spec = importlib.util.spec_from_file_location("_c15_games_compiled",
                                                  G.__file__)
    C = importlib.util.module_from_spec(spec)
    spec.loader.exec_module(C)
    C.earliest_free_day = numba.njit(cache=False)(C.earliest_free_day)
    C.decode_model = numba.njit(cache=False)(C.decode_model)
    C.plan_defect = numba.njit(cache=False)(C.plan_defect)
    efd = C.earliest_free_day
    dmodel = C.decode_model
    defect = C.plan_defect

    @numba.njit(cache=False)
    def check_node(x, k, y, ym, inv, cntb, res, bad_x):
        """Real kernel on x[:k] into a dirty y; compare with ym."""
        y.fill(77)
        map_games(x[:k], y)
        res[0] += 1
        res[1] += k
        kind = 0
        d = defect(y, x[:k], inv, cntb)
        if d != 0:
            kind = 10 + d
        else:
            days, n = y.shape
            for dd in range(days):
                for t in range(n):
                    if y[dd, t] != ym[dd, t]:
                        kind = 1
        if kind != 0 and res[3] == 0:
            res[3] = kind
            res[4] = k
            for i in range(k):
                bad_x[i] = x[i]
        return kind

    @numba.njit(cache=False)
    def push(k, c, vals, table, x, cnt, busy, pday, ndrop, nlate, ym):
        """Append value index c at position k to x and to the model plan."""
        days, n = ym.shape
        g = vals[c]
        x[k] = g
        cnt[c] -= 1
        home = table[g, 0]
        away = table[g, 1]
        d = efd(busy[k, home], busy[k, away], days)
        for t in range(n):
            busy[k + 1, t] = busy[k, t]
        ndrop[k + 1] = ndrop[k]
        nlate[k + 1] = nlate[k]
        pday[k] = d
        if d >= 0:
            busy[k + 1, home] |= (1 << d)
            busy[k + 1, away] |= (1 << d)
            ym[d, home] = away + 1
            ym[d, away] = -(home + 1)
            if d > 0:
                nlate[k + 1] += 1
        else:
            ndrop[k + 1] += 1

    @numba.njit(cache=False)
    def pop(k, c, vals, table, cnt, pday, ym):
        """Undo the push at position k."""
        cnt[c] += 1
        g = vals[c]
        if pday[k] >= 0:
            ym[pday[k], table[g, 0]] = 0
            ym[pday[k], table[g, 1]] = 0

    @numba.njit(cache=False)
    def drive_tree(vals, cnt0, pre, maxdepth, table, inv, x, y, ym, ym2,
                   res, hist, bad_x):
        """
        Depth-first walk over all permutations with repetition below ``pre``.

        Checks the node ``pre`` itself and every descendant of depth
        <= maxdepth. res: 0 nodes, 1 games fed to the real kernel, 2 leaves,
        3 first bad kind (0 = none), 4 its length, 5 nodes with a dropped
        game, 6 nodes with a game placed after day 0, 7 model-vs-model
        mismatches at leaves (must stay 0)
        """
        nv = len(vals)
        m = 0
        for c in cnt0:
            m += c
        days, n = y.shape
        cnt = cnt0.copy()
        choice = np.full(m + 1, -1, np.int64)
        busy = np.zeros((m + 1, n), np.int64)
        bscr = np.zeros(n, np.int64)
        pday = np.full(m + 1, -1, np.int64)
        ndrop = np.zeros(m + 1, np.int64)
        nlate = np.zeros(m + 1, np.int64)
        cntb = np.zeros(table.shape[0], np.int64)
        ym[:, :] = 0
        lp = len(pre)
        for i in range(lp):
            choice[i] = pre[i]
            push(i, pre[i], vals, table, x, cnt, busy, pday, ndrop, nlate,
                 ym)
        k = lp
        choice[k] = -1
        fresh = True  # the node at depth k has not been checked yet
        while True:
            if fresh:
                if check_node(x, k, y, ym, inv, cntb, res, bad_x) != 0:
                    return
                if ndrop[k] > 0:
                    res[5] += 1
                if nlate[k] > 0:
                    res[6] += 1
                if k == m:
                    res[2] += 1
                    hist[ndrop[k]] += 1
                    dmodel(x, table, bscr, ym2)
                    for dd in range(days):
                        for t in range(n):
                            if ym[dd, t] != ym2[dd, t]:
                                res[7] += 1
                fresh = False
            c = nv
            if k < maxdepth and k < m:
                c = choice[k] + 1
                while c < nv and cnt[c] == 0:
                    c += 1
            if c < nv:
                choice[k] = c
                push(k, c, vals, table, x, cnt, busy, pday, ndrop, nlate, ym)
                k += 1
                choice[k] = -1
                fresh = True
                continue
            if k == lp:
                break
            k -= 1
            pop(k, choice[k], vals, table, cnt, pday, ym)

    @numba.njit(cache=False)
    def expand(rep1, rep2, cnt, vals, table, inv, x, y, ym, ym2, out_plan,
               out_cnt, out_rep, store, res, bad_x):
        """
        Execute all outgoing edges of a block of BFS states.

        State s is reached by the concrete prefixes rep1[s] and rep2[s]; the
        real kernel and the (from-scratch) model are run on prefix + game for
        every remaining game and both prefixes. Successors (of rep1) are
        written to out_* if ``store``. res: 0 real executions, 1 games fed,
        2 edges, 3 bad kind, 4 bad length, 5 edges whose game is dropped,
        6 edges whose game lands after day 0, 7 states with two prefixes
        """
        ns, depth = rep1.shape
        nv = len(vals)
        days, n = y.shape
        busy = np.zeros(n, np.int64)
        cntb = np.zeros(table.shape[0], np.int64)
        e = 0
        for s in range(ns):
            two = False
            for i in range(depth):
                if rep1[s, i] != rep2[s, i]:
                    two = True
            if two:
                res[7] += 1
            for which in range(2):
                if which == 1 and not two:
                    break
                for i in range(depth):
                    x[i] = rep1[s, i] if which == 0 else rep2[s, i]
                dprev = dmodel(x[:depth], table, busy, ym2)
                for v in range(nv):
                    if cnt[s, v] <= 0:
                        continue
                    x[depth] = vals[v]
                    dropped = dmodel(x[:depth + 1], table, busy, ym)
                    if check_node(x, depth + 1, y, ym, inv, cntb, res,
                                  bad_x) != 0:
                        return e
                    if which == 1:
                        continue
                    res[2] += 1
                    if dropped > dprev:
                        res[5] += 1
                    else:
                        home = table[vals[v], 0]
                        away = table[vals[v], 1]
                        for dd in range(1, days):
                            if ym[dd, home] == away + 1 \
                                    and ym2[dd, home] == 0:
                                res[6] += 1
                    if store:
                        for dd in range(days):
                            for t in range(n):
                                out_plan[e, dd * n + t] = ym[dd, t]
                        for v2 in range(nv):
                            out_cnt[e, v2] = cnt[s, v2]
                        out_cnt[e, v] -= 1
                        for i in range(depth + 1):
                            out_rep[e, i] = x[i]
                    e += 1
        return e

    _DRV.update(drive_tree=drive_tree, expand=expand)
    return _DRV


# --------------------------------------------------------------------------
# part: id table
# --------------------------------------------------------------------------
def single_game(n, g):
    """
    Decode game id ``g`` alone: (ok, observed rows, expected row).

    Only the id -> (home, away) mapping is judged here (which *day* is used
    is the business of the other parts): every non-empty day of the decoded
    plan must be the documented pair, and there must be one. Paths: the
    kernel on a one-day plan with int64 ids and with ids of the search
    space's dtype; for even n also ``GameEncoding.decode`` (two rounds, where
    every id belongs to the search space).
    """
    from moptipyapps.ttp.game_encoding import map_games
    tab = G.game_table(n)
    home, away = int(tab[g, 0]), int(tab[g, 1])
    exp = [0] * n
    exp[home] = away + 1
    exp[away] = -(home + 1)
    seen = []
    ok = True
    for dt in (np.int64, real_space(n, 2).dtype):
        y = np.full((1, n), FILL, y_dtype(n))
        map_games(np.array([g], dt), y)
        seen.append(y[0].tolist())
        ok = ok and seen[-1] == exp
    if n % 2 == 0:
        rows = [r for r in decode_real(n, 2, [g]).tolist() if any(r)]
        seen += rows
        ok = ok and len(rows) > 0 and all(r == exp for r in rows)
    return ok, seen, exp


def _id_job(n):
    """All game ids of a larger n through the kernel (one game per call)."""
    from moptipyapps.ttp.game_encoding import map_games
    tab = G.game_table(n)
    dts = (np.int64, real_space(n, 1 if n > 2 else 2).dtype)
    y = np.full((1, n), FILL, y_dtype(n))
    cnt = 0
    for g in range(n * (n - 1)):
        home, away = int(tab[g, 0]), int(tab[g, 1])
        for dt in dts:
            y.fill(FILL)
            map_games(np.array([g], dt), y)
            cnt += 1
            row = y[0]
            if row[home] != away + 1 or row[away] != -(home + 1) \
                    or int(np.count_nonzero(row)) != 2:
                return n, cnt, g
    return n, cnt, None


def part_id_table(ctx, nontrivial):
    """Every game id alone through the real decoder == my ordered-pair row."""
    cnt = 0
    for n in range(2, N_MAX + 1):
        tab = G.game_table(n)
        if len({(int(a), int(b)) for a, b in tab}) != n * (n - 1):
            raise HarnessError("model table is not a bijection")
        for g in range(n * (n - 1)):
            ok, seen, exp = single_game(n, g)
            cnt += 3 if n % 2 == 0 else 2
            nontrivial.add((n, 0, bytes(np.array(exp, np.int8))))
            if not ok:
                if single_game(n, g)[0]:
                    raise HarnessError("id-table failure not reproducible")
                ctx.violation(
                    "decode|single game id is not the documented (home, "
                    "away) pair",
                    f"n={n} game id {g} = (home {int(tab[g, 0]) + 1}, away "
                    f"{int(tab[g, 1]) + 1}) by the documentation, decoded "
                    f"alone gives the non-empty days {seen} expected "
                    f"{exp} in each",
                    {"kind": "single", "n": n, "g": g})
                break
    # larger team counts (kernel path): every id of every n up to 130
    big = pmap(_id_job, list(range(N_MAX + 1, 131)), ctx.jobs)
    for n, c, g in big:
        cnt += c
        if g is not None:
            tab = G.game_table(n)
            ok, seen, exp = single_game(n, g)
            ctx.violation(
                "decode|single game id is not the documented (home, away) "
                "pair",
                f"n={n} game id {g} = (home {int(tab[g, 0]) + 1}, away "
                f"{int(tab[g, 1]) + 1}) by the documentation, decoded alone "
                f"gives {seen[:2]} expected {exp}",
                {"kind": "single", "n": n, "g": g})
    ctx.add("evaluations", cnt)
    ctx.add("traces_validated_against_impl", cnt)
    ctx.part("id_table", team_counts=129, single_game_decodes=cnt)
    ctx.log(f"id_table: {cnt} single-game decodes")


# --------------------------------------------------------------------------
# part: search space
# --------------------------------------------------------------------------
def space_defect(n, rounds, bp):
    """None if the blueprint satisfies the statement, else (clause, text)."""
    tab = G.game_table(n)
    m = n * (n - 1) // 2 * rounds
    if len(bp) != m:
        return "length", f"length {len(bp)} != n(n-1)/2*rounds = {m}"
    for g in bp:
        if not 0 <= g < n * (n - 1):
            return "game id range", f"game id {g} outside 0..{n * (n - 1) - 1}"
    ha = np.zeros((n, n), np.int64)
    for g in bp:
        ha[tab[g, 0], tab[g, 1]] += 1
    for i in range(n):
        for j in range(i + 1, n):
            if ha[i, j] + ha[j, i] != rounds:
                return ("pairing multiplicity",
                        f"pairing {i + 1}-{j + 1} occurs "
                        f"{int(ha[i, j] + ha[j, i])} times, not {rounds}")
    for i in range(n):
        for j in range(i + 1, n):
            if abs(int(ha[i, j]) - int(ha[j, i])) > 1:
                return ("per-pairing home/away balance",
                        f"pairing {i + 1}-{j + 1}: {int(ha[i, j])} games at "
                        f"{i + 1}, {int(ha[j, i])} at {j + 1}")
    for i in range(n):
        h, a = int(ha[i, :].sum()), int(ha[:, i].sum())
        if abs(h - a) > 1:
            return ("per-team home/away balance",
                    f"team {i + 1}: {h} home games, {a} away games")
    return None


def check_space(n, rounds):
    """Returns None or (clause, text) for one (n, rounds)."""
    from moptipy.spaces.permutations import Permutations
    sp = real_space(n, rounds)
    if not isinstance(sp, Permutations):
        return "type", f"not a Permutations space: {type(sp)}"
    bp = [int(v) for v in sp.blueprint]
    d = space_defect(n, rounds, bp)
    if d:
        return d[0], d[1] + f"; blueprint={bp}"
    if sp.dimension != len(bp):
        return "length", f"dimension {sp.dimension} != {len(bp)}"
    if n % 2 == 0:
        from moptipyapps.ttp.game_encoding import GameEncoding
        bp2 = [int(v) for v in
               GameEncoding(instance(n, rounds)).search_space().blueprint]
        if bp2 != bp:
            return ("GameEncoding.search_space differs from "
                    "search_space_for_n_and_rounds",
                    f"{bp2} vs {bp}")
    return None


def part_search_space(ctx):
    cases = 0
    unbalanced = 0
    for n in range(2, N_MAX + 1):
        for rounds in range(1, R_MAX + 1):
            if (n, rounds) == (2, 1):
                continue
            cases += 1
            d = check_space(n, rounds)
            if ((n - 1) * rounds) % 2:
                unbalanced += 1
            if d:
                if check_space(n, rounds) is None:
                    raise HarnessError("search-space defect not reproducible")
                ctx.violation(
                    f"search_space|{d[0]}",
                    f"search_space_for_n_and_rounds({n}, {rounds}): {d[1]}",
                    {"kind": "space", "n": n, "rounds": rounds})
    ctx.add("evaluations", cases)
    ctx.add("traces_validated_against_impl", cases)
    ctx.part("search_space", settings=cases,
             settings_where_teams_cannot_be_exactly_balanced=unbalanced)
    ctx.log(f"search_space: {cases} (n, rounds) settings")
    return unbalanced


# --------------------------------------------------------------------------
# part: complete trees through the public API, interpreted model
# --------------------------------------------------------------------------
def _public_tree(a):
    """All prefixes up to maxdepth; returns (nodes, fed, plans, bad)."""
    from moptipyapps.ttp.game_encoding import GameEncoding
    from moptipyapps.ttp.game_plan import GamePlan
    n, rounds, maxdepth = a
    vals, cnts, xdt = multiset(n, rounds)
    cnts = list(cnts)
    m = sum(cnts)
    inst = instance(n, rounds)
    enc = GameEncoding(inst)   # ONE encoder and ONE destination for the tree
    dest = GamePlan(inst)
    tab = G.game_table(n)
    inv = G.game_index(tab, n)
    days = (n - 1) * rounds
    ym = np.zeros((days, n), np.int64)
    scratch = np.zeros(n * (n - 1), np.int64)
    stats = [0, 0, 0]
    plans = set()
    x = []

    def node():
        xa = np.array(x, xdt)
        dest.fill(FILL)
        enc.decode(xa, dest)
        fresh = GamePlan(inst)
        GameEncoding(inst).decode(xa, fresh)
        dropped = G.decode_model(x, tab, [0] * n, ym)
        stats[0] += 1
        stats[1] += 2 * len(x)
        for y in (dest, fresh):
            yy = np.array(y, np.int64)
            if G.plan_defect(yy, x, inv, scratch) or \
                    not np.array_equal(yy, ym):
                return list(x)
        if dropped or ym[1:].any():
            plans.add(ym.tobytes())
        if len(x) == m:
            stats[2] += 1
        return None

    def rec():
        bad = node()
        if bad is not None:
            return bad
        if len(x) >= min(m, maxdepth):
            return None
        for i, v in enumerate(vals):
            if cnts[i]:
                cnts[i] -= 1
                x.append(v)
                bad = rec()
                x.pop()
                cnts[i] += 1
                if bad is not None:
                    return bad
        return None
    bad = rec()
    return stats, plans, bad


def part_public_trees(ctx, nontrivial):
    specs = [(2, r, 99) for r in range(2, 9)] + [(4, 1, 99)]
    specs.append((4, 2, 4 if ctx.quick else 5))
    out = pmap(_public_tree, specs, ctx.jobs)
    for (n, rounds, md), (stats, plans, bad) in zip(specs, out):
        cnts = multiset(n, rounds)[1]
        m = sum(cnts)
        if md >= m and stats[0] != G.tree_nodes(cnts) and bad is None:
            raise HarnessError(f"tree ({n},{rounds}): {stats[0]} nodes "
                               f"!= {G.tree_nodes(cnts)}")
        ctx.add("states", stats[0])
        ctx.add("transitions", stats[1])
        ctx.add("evaluations", 2 * stats[0])
        ctx.add("traces_validated_against_impl", 2 * stats[0])
        ctx.part(f"public_tree_n{n}_r{rounds}", nodes=stats[0],
                 leaves=stats[2], depth=min(md, m), of_depth=m,
                 decodes=2 * stats[0],
                 distinct_nontrivial_plans=len(plans))
        nontrivial.update((n, rounds, p) for p in plans)
        if bad is not None:
            report_decode(ctx, n, rounds, bad, "GameEncoding.decode on a "
                          "reused encoder / fresh encoder")
    ctx.log("public trees:", [(s[0], s[1], o[0][0]) for s, o in
                              zip(specs, out)])


# --------------------------------------------------------------------------
# part: complete trees inside the numba driver, compiled model
# --------------------------------------------------------------------------
def _tree_job(a):
    n, rounds, pre, maxdepth = a
    d = drivers()
    vals, cnts, xdt = multiset(n, rounds)
    m = sum(cnts)
    days = (n - 1) * rounds
    tab = G.game_table(n)
    res = np.zeros(8, np.int64)
    hist = np.zeros(m + 1, np.int64)
    bad_x = np.zeros(m, np.int64)
    d["drive_tree"](np.array(vals, np.int64), np.array(cnts, np.int64),
                    np.array(pre, np.int64), maxdepth, tab,
                    G.game_index(tab, n), np.zeros(m, xdt),
                    np.zeros((days, n), y_dtype(n)),
                    np.zeros((days, n), np.int64),
                    np.zeros((days, n), np.int64), res, hist, bad_x)
    return res, hist, bad_x


def _prefixes(cnts, length):
    out = []

    def rec(p, c):
        if len(p) == length:
            out.append(tuple(p))
            return
        for i in range(len(c)):
            if c[i]:
                c[i] -= 1
                p.append(i)
                rec(p, c)
                p.pop()
                c[i] += 1
    rec([], list(cnts))
    return out


def kernel_tree(ctx, n, rounds, split):
    cnts = multiset(n, rounds)[1]
    m = sum(cnts)
    leaves = G.multiset_permutations(cnts)
    nodes = G.tree_nodes(cnts)
    if days_of(n, rounds) > 62:
        raise HarnessError("compiled model handles at most 62 days")
    split = min(split, m)
    jobs = [(n, rounds, (), split - 1)] if split > 0 else []
    jobs += [(n, rounds, p, m) for p in _prefixes(cnts, split)]
    out = pmap(_tree_job, jobs, ctx.jobs)
    res = np.sum([o[0] for o in out], axis=0)
    hist = np.sum([o[1] for o in out], axis=0)
    bad = None
    for o in out:
        if o[0][3] != 0:
            bad = [int(v) for v in o[2][:int(o[0][4])]]
            break
    if bad is None:
        if int(res[0]) != nodes or int(res[2]) != leaves:
            raise HarnessError(
                f"tree ({n},{rounds}): walked {int(res[0])} nodes / "
                f"{int(res[2])} leaves, expected {nodes} / {leaves}")
        if res[7]:
            raise HarnessError("incremental and from-scratch model differ")
    ctx.add("states", int(res[0]))
    ctx.add("transitions", int(res[1]))
    ctx.add("evaluations", int(res[0]))
    ctx.add("traces_validated_against_impl", int(res[0]))
    ctx.part(f"kernel_tree_n{n}_r{rounds}", nodes=int(res[0]),
             leaves=int(res[2]), games_fed=int(res[1]),
             nodes_with_dropped_game=int(res[5]),
             nodes_with_game_after_day0=int(res[6]),
             leaves_by_dropped_games={str(k): int(v) for k, v in
                                      enumerate(hist) if v})
    ctx.log(f"kernel tree ({n},{rounds}): nodes={int(res[0])} "
            f"leaves={int(res[2])} dropped-nodes={int(res[5])}")
    if bad is not None:
        report_decode(ctx, n, rounds, bad, "map_games inside the driver")
    return int((hist > 0).sum())


def days_of(n, rounds):
    return (n - 1) * rounds


# --------------------------------------------------------------------------
# part: BFS over distinct partial plans
# --------------------------------------------------------------------------
_LEVEL = {}


def _bfs_job(a):
    lo, hi, store = a
    d = drivers()
    L = _LEVEL
    n, rounds = L["n"], L["rounds"]
    days = (n - 1) * rounds
    rep1 = L["rep1"][lo:hi]
    rep2 = L["rep2"][lo:hi]
    cnt = L["cnt"][lo:hi]
    depth = rep1.shape[1]
    nv = cnt.shape[1]
    tab = G.game_table(n)
    e_max = int((cnt > 0).sum())
    rows = e_max if store else 1
    out_plan = np.zeros((rows, days * n), np.int8)
    out_cnt = np.zeros((rows, nv), np.int8)
    out_rep = np.zeros((rows, depth + 1), rep1.dtype)
    res = np.zeros(8, np.int64)
    bad_x = np.zeros(depth + 1, np.int64)
    e = d["expand"](rep1, rep2, cnt, np.array(L["vals"], np.int64), tab,
                    G.game_index(tab, n), np.zeros(depth + 1, rep1.dtype),
                    np.zeros((days, n), y_dtype(n)),
                    np.zeros((days, n), np.int64),
                    np.zeros((days, n), np.int64), out_plan, out_cnt,
                    out_rep, store, res, bad_x)
    if res[3] != 0:
        return res, bad_x[:int(res[4])], None
    if e != e_max:
        raise HarnessError("edge count mismatch in expand")
    if not store:
        return res, None, None
    return res, None, _dedup(out_plan, out_cnt, out_rep, out_rep)


def _dedup(plan, cnt, rep_a, rep_b):
    """Unique (plan, cnt) rows; first prefix of the first and a prefix of
    the last row of each group as the two representatives."""
    key = np.ascontiguousarray(np.concatenate(
        [plan.view(np.uint8), cnt.view(np.uint8)], axis=1))
    kv = key.view(np.dtype((np.void, key.shape[1]))).ravel()
    _, first, inverse = np.unique(kv, return_index=True, return_inverse=True)
    inverse = inverse.ravel()
    last = np.zeros(len(first), np.int64)
    last[inverse] = np.arange(len(kv))
    return plan[first], cnt[first], rep_a[first], rep_b[last]


def plan_bfs(ctx, n, rounds, maxdepth, nontrivial):
    vals, cnts, xdt = multiset(n, rounds)
    m = sum(cnts)
    days = (n - 1) * rounds
    if days > 62 or max(cnts) > 120 or n > 120:
        raise HarnessError("BFS encodings too narrow")
    maxdepth = min(maxdepth, m)
    plan = np.zeros((1, days * n), np.int8)
    cnt = np.array([cnts], np.int8)
    rep1 = np.zeros((1, 0), xdt)
    rep2 = np.zeros((1, 0), xdt)
    tot = np.zeros(8, np.int64)
    states = 0
    per_level = []
    nt = 0
    for depth in range(maxdepth):
        store = depth < maxdepth - 1
        ns = len(plan)
        states += ns
        _LEVEL.clear()
        _LEVEL.update(n=n, rounds=rounds, vals=vals, cnt=cnt, rep1=rep1,
                      rep2=rep2)
        nch = max(1, min(ctx.jobs * 3, ns // 200))
        b = [ns * i // nch for i in range(nch + 1)]
        out = pmap(_bfs_job, [(b[i], b[i + 1], store) for i in range(nch)],
                   ctx.jobs)
        for res, bad, _ in out:
            tot += res
        for res, bad, _ in out:
            if bad is not None:
                _bfs_account(ctx, n, rounds, maxdepth, states, tot,
                             per_level, nt)
                report_decode(ctx, n, rounds, bad,
                              f"map_games in the partial-plan BFS (depth "
                              f"{depth + 1})")
                return
        per_level.append(ns)
        if not store:
            break
        plan, cnt, rep1, rep2 = _dedup(
            np.concatenate([o[2][0] for o in out]),
            np.concatenate([o[2][1] for o in out]),
            np.concatenate([o[2][2] for o in out]),
            np.concatenate([o[2][3] for o in out]))
        # non-trivial states: a game after day 0 or a dropped game
        placed = (plan > 0).sum(axis=1)
        late = (plan[:, n:] != 0).any(axis=1) | (placed < depth + 1)
        nt += int(late.sum())
        if len(nontrivial) < 200000:
            for row in plan[late][:2000]:
                nontrivial.add((n, rounds, row.tobytes()))
    _bfs_account(ctx, n, rounds, maxdepth, states, tot, per_level, nt)


def _bfs_account(ctx, n, rounds, maxdepth, states, tot, per_level, nt):
    ctx.add("states", states)
    ctx.add("transitions", int(tot[2]))
    ctx.add("evaluations", int(tot[0]))
    ctx.add("traces_validated_against_impl", int(tot[0]))
    ctx.part(f"plan_bfs_n{n}_r{rounds}", depth=maxdepth,
             of_depth=n * (n - 1) // 2 * rounds,
             complete_state_space=maxdepth == n * (n - 1) // 2 * rounds,
             expanded_states=states, states_per_level=per_level,
             edges=int(tot[2]), real_decodes=int(tot[0]),
             games_fed=int(tot[1]), edges_dropping_the_game=int(tot[5]),
             edges_placing_after_day0=int(tot[6]),
             states_expanded_from_two_prefixes=int(tot[7]),
             nontrivial_states=nt)
    ctx.log(f"plan BFS ({n},{rounds}) depth {maxdepth}: states={states} "
            f"edges={int(tot[2])} decodes={int(tot[0])} "
            f"dropped-edges={int(tot[5])} two-prefix-states={int(tot[7])}")


# --------------------------------------------------------------------------
# part: a fixed family of complete permutations for every (n, rounds)
# --------------------------------------------------------------------------
def circle_order(n, rounds, bp):
    """
    The games sorted by (copy of the pairing, day of the circle method).

    For even n every day of a round is then completely filled by the
    documented rule: no game is dropped and the last day is used.
    """
    tab = G.game_table(n)
    k = n if n % 2 == 0 else n + 1
    day_of = {}
    for r in range(k - 1):
        pairs = [(k - 1, r)]
        for i in range(1, k // 2):
            pairs.append(((r + i) % (k - 1), (r - i) % (k - 1)))
        for p, q in pairs:
            day_of[frozenset((p, q))] = r
    seen = {}
    keyed = []
    for g in sorted(bp):
        pr = frozenset((int(tab[g, 0]), int(tab[g, 1])))
        c = seen.get(pr, 0)
        seen[pr] = c + 1
        keyed.append((c, day_of[pr], g))
    keyed.sort()
    return [g for _, _, g in keyed]


def family(n, rounds):
    vals, cnts, _ = multiset(n, rounds)
    bp = []
    for v, c in zip(vals, cnts):
        bp += [v] * c
    m = len(bp)
    fam = [("sorted", bp), ("reversed", bp[::-1]),
           ("circle", circle_order(n, rounds, bp)),
           ("circle-reversed", circle_order(n, rounds, bp)[::-1])]
    strides = [s for s in range(2, m) if gcd(s, m) == 1][:6]
    for s in strides:
        fam.append((f"stride{s}", [bp[(i * s) % m] for i in range(m)]))
    return fam


def _family_job(a):
    n, rounds = a
    cnt = 0
    fed = 0
    plans = set()
    nodrop_full = 0
    drops = 0
    for name, x in family(n, rounds):
        kind, _, ym = check_case(n, rounds, x)
        cnt += 1
        fed += len(x)
        if kind:
            return cnt, fed, plans, nodrop_full, (name, x), drops
        if ym[1:].any():
            plans.add(ym.tobytes())
        if (ym != 0).all():
            nodrop_full += 1
        if 2 * len(x) > int((ym != 0).sum()):
            drops += 1
    return cnt, fed, plans, nodrop_full, None, drops


def part_full_family(ctx, nontrivial):
    specs = [(n, r) for n in range(2, N_MAX + 1) for r in range(1, R_MAX + 1)
             if (n, r) != (2, 1)]
    # storage edges: numbers of days around 128 and 256, numbers of teams
    # around 64 and 128 (anything that keeps day or team indices in a
    # narrow integer or in a machine word breaks here first)
    specs += [(4, 42), (4, 43), (4, 85), (4, 86), (6, 26), (6, 51), (6, 52),
              (8, 37), (3, 64), (3, 65), (3, 128), (3, 129), (20, 14),
              (63, 1), (64, 1), (65, 1), (66, 1), (64, 2), (127, 1),
              (128, 1), (129, 1), (130, 1)]
    out = pmap(_family_job, specs, ctx.jobs)
    cnt = sum(o[0] for o in out)
    fed = sum(o[1] for o in out)
    full = sum(o[3] for o in out)
    drops_even = sum(o[5] for sp, o in zip(specs, out) if sp[0] % 2 == 0)
    drops_odd = sum(o[5] for sp, o in zip(specs, out) if sp[0] % 2)
    for (n, r), o in zip(specs, out):
        nontrivial.update((n, r, p) for p in o[2])
        if o[4] is not None:
            report_decode(ctx, n, r, o[4][1],
                          f"decode of the complete '{o[4][0]}' order")
    ctx.add("evaluations", cnt)
    ctx.add("traces_validated_against_impl", cnt)
    ctx.add("states", cnt)
    ctx.add("transitions", fed)
    ctx.part("full_family", settings=len(specs), decodes=cnt, games_fed=fed,
             plans_without_any_bye=full,
             decodes_dropping_games_even_n=drops_even,
             decodes_dropping_games_odd_n=drops_odd)
    ctx.log(f"full_family: {cnt} complete permutations, {full} fill every "
            "cell")


# --------------------------------------------------------------------------
# part: one encoder object, one destination, all ordered pairs of decodings
# --------------------------------------------------------------------------
def _nodes(n, rounds, full_only):
    vals, cnts, _ = multiset(n, rounds)
    cnts = list(cnts)
    m = sum(cnts)
    out = []
    x = []

    def rec():
        if not full_only or len(x) == m:
            out.append(tuple(x))
        for i, v in enumerate(vals):
            if cnts[i]:
                cnts[i] -= 1
                x.append(v)
                rec()
                x.pop()
                cnts[i] += 1
    rec()
    return out


def _reuse_job(a):
    from moptipyapps.ttp.game_encoding import GameEncoding
    from moptipyapps.ttp.game_plan import GamePlan
    n, rounds, full_only, lo, hi = a
    seqs = _nodes(n, rounds, full_only)
    xdt = real_space(n, rounds).dtype
    arrs = [np.array(s, xdt) for s in seqs]
    inst = instance(n, rounds)
    enc = GameEncoding(inst)
    dest = GamePlan(inst)
    exp = [decode_model(n, rounds, s)[0].astype(dest.dtype).tobytes()
           for s in seqs]
    dest.fill(FILL)
    cnt = 0
    for i in range(lo, hi):
        for j in range(len(seqs)):
            enc.decode(arrs[i], dest)
            enc.decode(arrs[j], dest)
            cnt += 2
            if dest.tobytes() != exp[j]:
                return cnt, (i, j)
    return cnt, None


def _layout_job(a):
    """map_games into destinations of other legal memory layouts."""
    from moptipyapps.ttp.game_encoding import map_games
    n, rounds = a
    seqs = _nodes(n, rounds, True)
    xdt = real_space(n, rounds).dtype
    ydt = y_dtype(n)
    days = (n - 1) * rounds
    cnt = 0
    for s in seqs:
        x = np.array(s, xdt)
        exp = decode_model(n, rounds, s)[0].astype(ydt)
        big = np.full((2 * days, 2 * n), FILL, ydt)
        for lname, y in (
                ("Fortran-ordered array", np.asfortranarray(
                    np.full((days, n), FILL, ydt))),
                ("transposed view of an (n, days) array",
                 np.full((n, days), FILL, ydt).T),
                ("strided view", big[::2, ::2]),
                ("view with reversed rows",
                 np.full((days, n), FILL, ydt)[::-1])):
            try:
                map_games(x, y)
            except (TypeError, ValueError):
                continue    # refused loudly
            cnt += 1
            if not np.array_equal(np.asarray(y), exp):
                return cnt, (list(s), lname, np.asarray(y).tolist(),
                             exp.tolist())
    return cnt, None


def part_layouts(ctx):
    specs = [(2, 2), (2, 3), (3, 1), (3, 2), (4, 1)]
    out = pmap(_layout_job, specs, ctx.jobs)
    cnt = sum(o[0] for o in out)
    ctx.add("evaluations", cnt)
    ctx.add("traces_validated_against_impl", cnt)
    ctx.part("destination_memory_layouts", settings=[list(s) for s in specs],
             decodes=cnt)
    for (n, rounds), o in zip(specs, out):
        if o[1] is not None:
            s, lname, got, exp = o[1]
            ctx.violation(
                "decode|plan differs from the earliest-free-day model|"
                "destination layout",
                f"n={n} rounds={rounds} x={s}: map_games into a destination "
                f"of the right shape and type given as {lname} leaves "
                f"{got}, expected {exp}",
                {"kind": "layout", "n": n, "rounds": rounds, "x": s,
                 "layout": lname})
            break


def part_reuse(ctx):
    specs = [(2, 2, False), (2, 3, False), (2, 4, False), (2, 5, False),
             (4, 1, ctx.quick)]
    for n, rounds, full_only in specs:
        seqs = _nodes(n, rounds, full_only)
        ns = len(seqs)
        nch = max(1, min(ctx.jobs * 2, ns // 20))
        b = [ns * i // nch for i in range(nch + 1)]
        out = pmap(_reuse_job, [(n, rounds, full_only, b[i], b[i + 1])
                                for i in range(nch)], ctx.jobs)
        cnt = sum(o[0] for o in out)
        ctx.add("evaluations", cnt)
        ctx.add("traces_validated_against_impl", cnt // 2)
        ctx.add("states", ns)
        ctx.add("transitions", cnt // 2)
        ctx.part(f"reuse_n{n}_r{rounds}", sequences=ns,
                 complete_permutations_only=full_only,
                 ordered_pairs=cnt // 2, decodes=cnt)
        for o in out:
            if o[1] is not None:
                p, q = list(seqs[o[1][0]]), list(seqs[o[1][1]])
                ok, y, ym = replay_reuse(n, rounds, p, q)
                if ok:
                    raise HarnessError("reuse failure not reproducible")
                alone = check_case(n, rounds, q)[0]
                ctx.violation(
                    "decode|result depends on the previous decoding"
                    if alone == 0 else f"decode|{KIND[alone]}",
                    f"n={n} rounds={rounds}: decoding x={q} after x={p} "
                    f"with the same GameEncoding object into the same "
                    f"GamePlan gives {y.tolist()} expected {ym.tolist()}",
                    {"kind": "reuse", "n": n, "rounds": rounds, "first": p,
                     "second": q})
                break
        if full_only:
            ctx.cap(f"reuse histories for ({n},{rounds}): complete "
                    "permutations only (all prefixes in thorough)")
    ctx.log("reuse histories done")


def replay_reuse(n, rounds, p, q):
    from moptipyapps.ttp.game_encoding import GameEncoding
    from moptipyapps.ttp.game_plan import GamePlan
    inst = instance(n, rounds)
    xdt = real_space(n, rounds).dtype
    enc = GameEncoding(inst)
    dest = GamePlan(inst)
    dest.fill(FILL)
    enc.decode(np.array(p, xdt), dest)
    enc.decode(np.array(q, xdt), dest)
    y = np.array(dest, np.int64)
    ym = decode_model(n, rounds, q)[0]
    return np.array_equal(y, ym), y, ym


# --------------------------------------------------------------------------
def warm():
    """Compile every specialisation before workers are forked."""
    drivers()
    _tree_job((2, 2, (), 2))
    for n, rounds in ((4, 1), (N_MAX, 1)):  # int8 and uint8 game ids
        vals, cnts, xdt = multiset(n, rounds)
        _LEVEL.clear()
        _LEVEL.update(n=n, rounds=rounds, vals=vals,
                      cnt=np.array([cnts], np.int8),
                      rep1=np.zeros((1, 0), xdt), rep2=np.zeros((1, 0), xdt))
        _bfs_job((0, 1, True))
    _LEVEL.clear()


def run(ctx: Ctx) -> None:
    warm()
    ctx.log("drivers compiled")
    nontrivial = set()
    part_id_table(ctx, nontrivial)
    part_search_space(ctx)
    part_public_trees(ctx, nontrivial)
    part_reuse(ctx)
    part_layouts(ctx)
    outcome_classes = 0
    # complete trees through the compiled driver
    trees = [(2, r, 1) for r in range(2, R_MAX + 1)]
    trees += [(3, 1, 1), (3, 2, 1), (4, 1, 1), (3, 3, 2), (5, 1, 2),
              (3, 4, 2)]
    if not ctx.quick:
        trees += [(4, 2, 3), (3, 5, 3)]
    for n, rounds, split in trees:
        if ctx.too_many():
            break
        outcome_classes += kernel_tree(ctx, n, rounds, split)
    if ctx.quick:
        ctx.cap("complete permutation trees of (4,2) [12! leaves] and (3,5) "
                "[756 756 000 leaves] only in thorough; quick covers (4,2) "
                "by the complete BFS over its distinct partial plans")
    # BFS over distinct partial plans (depth = number of games = complete
    # state space where it equals the permutation length)
    if ctx.quick:
        bfs = [(4, 2, 12), (6, 1, 9), (4, 3, 7), (6, 2, 5), (5, 2, 6),
               (7, 1, 5), (8, 1, 4), (4, 4, 6), (5, 3, 5), (10, 1, 3),
               (12, 1, 3), (16, 1, 3), (16, 2, 2)]
        ctx.cap("(6,1): partial plans to depth 9 of 15 (the complete state "
                "space of 21 841 756 states in thorough)")
    else:
        bfs = [(4, 2, 12), (6, 1, 15), (4, 3, 9), (6, 2, 6), (5, 2, 7),
               (7, 1, 7), (8, 1, 6), (4, 4, 8), (5, 3, 6), (6, 3, 5),
               (10, 1, 5), (12, 1, 4), (16, 1, 4), (16, 2, 2)]
    for n, rounds, depth in bfs:
        if ctx.too_many():
            break
        plan_bfs(ctx, n, rounds, depth, nontrivial)
    part_full_family(ctx, nontrivial)
    ctx.cov["distinct_nontrivial"] = len(nontrivial) + outcome_classes
    ctx.cov["rule"] = (
        "per (n, rounds): every prefix of every permutation with repetition "
        "of the real blueprint (complete trees), every distinct (partial "
        "plan, remaining multiset) state to the stated depth (BFS), a fixed "
        "family of complete permutations; non-trivial = distinct expected "
        "plans compared with the real decoder: every single game of every n "
        "(id table) + plans in which a game had to skip day 0 or was "
        "dropped (public trees, family, <= 2000 per BFS level) + distinct "
        "dropped-game counts over the leaves of each kernel tree")
    rng = np.random.default_rng(ctx.seed)
    for n, rounds in ((4, 1), (3, 2), (4, 3), (6, 1)):
        vals, cnts, _ = multiset(n, rounds)
        bp = []
        for v, c in zip(vals, cnts):
            bp += [v] * c
        x = [int(v) for v in rng.permutation(bp)]
        kind, y, ym = check_case(n, rounds, x)
        ctx.sample({"n": n, "rounds": rounds, "x": x, "plan": y.tolist(),
                    "model": ym.tolist(), "verdict": KIND.get(kind, "ok")})
    ctx.assume(f"team counts 2..{N_MAX}, rounds 1..{R_MAX}; complete "
               "permutation trees only for the (n, rounds) listed under "
               "parts.kernel_tree_*; for the settings under parts.plan_bfs_* "
               "only prefixes up to the stated depth; for all other settings"
               " only the 10 complete permutations of parts.full_family")
    ctx.assume("merging equal (plan, remaining multiset) states in the BFS "
               "is sound if the decoder's continuation depends on the "
               "prefix only through the plan; the complete trees establish "
               "that for the small settings and every BFS edge is executed "
               "from scratch on up to two different prefixes of its state")
    ctx.assume("odd team counts cannot be turned into an Instance (its "
               "constructor demands an even n); there the public kernel "
               "map_games is called directly on an array of GamePlan shape")


def replay(ctx: Ctx, rep: dict) -> bool:
    kind = rep.get("kind")
    if kind == "space":
        d = check_space(rep["n"], rep["rounds"])
        print(f"search space ({rep['n']}, {rep['rounds']}):",
              d if d else "satisfies the statement")
        return d is None
    if kind == "single":
        ok, seen, exp = single_game(rep["n"], rep["g"])
        print(f"n={rep['n']} game {rep['g']}: observed days {seen} "
              f"expected {exp}")
        return ok
    if kind == "reuse":
        ok, y, ym = replay_reuse(rep["n"], rep["rounds"], rep["first"],
                                 rep["second"])
        print(f"second decode observed={y.tolist()} model={ym.tolist()}")
        return ok
    if kind == "layout":
        from moptipyapps.ttp.game_encoding import map_games
        n, rounds, x = rep["n"], rep["rounds"], rep["x"]
        days = (n - 1) * rounds
        ydt = y_dtype(n)
        exp = decode_model(n, rounds, x)[0].astype(ydt)
        ok = True
        for lname, y in (("Fortran-ordered array", np.asfortranarray(
                np.full((days, n), FILL, ydt))),
                ("transposed view", np.full((n, days), FILL, ydt).T),
                ("reversed rows", np.full((days, n), FILL, ydt)[::-1])):
            map_games(np.array(x, real_space(n, rounds).dtype), y)
            same = np.array_equal(np.asarray(y), exp)
            print(f"{lname}: {np.asarray(y).tolist()} "
                  f"{'=' if same else '!='} model {exp.tolist()}")
            ok = ok and same
        return ok
    k, y, ym = check_case(rep["n"], rep["rounds"], rep["x"], rep.get("fill"))
    print(f"n={rep['n']} rounds={rep['rounds']} x={rep['x']} "
          f"observed={y.tolist()} model={ym.tolist()} -> "
          f"{KIND.get(k, 'holds')}")
    return k == 0
