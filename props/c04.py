"""C04: packing validation accepts exactly the feasible packings."""
import itertools

import numpy as np

from mc.core import Ctx, pmap
from models import packing as P
from props import pack_common as C


def validate_outcome(space, pk):
    """None if validate accepts, else the exception text."""
    try:
        space.validate(pk)
        return None
    except (ValueError, TypeError) as e:
        return f"{type(e).__name__}: {str(e)[:120]}"


def alphabet(W, H, inst):
    vals = set(range(-1, max(W, H) + 2))
    vals.add(inst.n_different_items + 1)
    vals.add(inst.n_items + 1)
    return sorted(vals)


def classify(inst, rows_inst, mat, nb, accepted, code):
    """Signature of a disagreement."""
    W, H = inst.bin_width, inst.bin_height
    if accepted and code == P.BAD_DIMS:
        # which kind of wrong dimension slipped through
        for r in mat:
            iid = int(r[0])
            if 1 <= iid <= len(rows_inst):
                w, h = rows_inst[iid - 1][0], rows_inst[iid - 1][1]
                rw, rh = int(r[4] - r[2]), int(r[5] - r[3])
                if (rw, rh) not in ((w, h), (h, w)) and \
                        (rw == h or rh == w):
                    return ("validate|accepts rectangle sharing one side "
                            "with the rotated item")
        return "validate|accepts wrong dimensions"
    if (not accepted) and code == P.OK and max(W, H) > 1_000_000_000:
        return "validate|rejects feasible packing|bin side > 1e9"
    if accepted:
        return f"validate|accepts infeasible packing|{P.CODE_NAMES[code]}"
    return "validate|rejects feasible packing"


def check_matrix(ctx_bads, space, inst, rows_inst, pk, mat, nb, what):
    """Compare validate with the oracle on one matrix; returns 1."""
    W, H = inst.bin_width, inst.bin_height
    pk[:, :] = mat
    pk.n_bins = nb
    out = validate_outcome(space, pk)
    code = P.feasible_intervals(mat, rows_inst, W, H, nb) \
        if isinstance(nb, int) and not isinstance(nb, bool) else P.BAD_NBINS
    if (out is None) != (code == P.OK):
        ctx_bads.append((classify(inst, rows_inst, mat, nb, out is None,
                                  code),
                         W, H, rows_inst, np.asarray(mat).tolist(),
                         nb if isinstance(nb, int) else repr(nb), out,
                         P.CODE_NAMES[code], what))
    return 1


def check_roundtrip(ctx_bads, space, inst, rows_inst, pk, mat, feasible):
    """from_str(to_str(.)) must equal the original / raise iff infeasible."""
    W, H = inst.bin_width, inst.bin_height
    pk[:, :] = mat
    pk.n_bins = int(np.asarray(mat)[:, 1].max())
    text = space.to_str(pk)
    try:
        back = space.from_str(text)
        err = None
    except (ValueError, TypeError) as e:
        back = None
        err = f"{type(e).__name__}: {str(e)[:100]}"
    nb = int(np.asarray(mat)[:, 1].max())
    code = P.feasible_intervals(mat, rows_inst, W, H, nb)
    if (err is None) != (code == P.OK):
        ctx_bads.append((("from_str|" + classify(
            inst, rows_inst, mat, nb, err is None, code)), W, H, rows_inst,
            np.asarray(mat).tolist(), nb, err, P.CODE_NAMES[code],
            "from_str(to_str(x))"))
    elif back is not None:
        if not (np.array_equal(np.asarray(back), np.asarray(mat))
                and back.dtype == pk.dtype and back.n_bins == nb
                and back.instance is inst and space.is_equal(back, pk)):
            ctx_bads.append(("from_str|round trip differs", W, H, rows_inst,
                             np.asarray(mat).tolist(), nb,
                             np.asarray(back).tolist(), "equal",
                             "from_str(to_str(x))"))
    return 1


def check_log(ctx_bads, path, space, inst, rows_inst, pk, mat):
    """
    Packing.from_log: the other public parser of the text form.

    A log file whose RESULT_Y section holds the text must give the packing
    back / be refused exactly like from_str (it "subjects it to the same
    validation").
    """
    from moptipyapps.binpacking2d.packing import Packing
    W, H = inst.bin_width, inst.bin_height
    pk[:, :] = mat
    nb = int(np.asarray(mat)[:, 1].max())
    pk.n_bins = nb
    with open(path, "w", encoding="utf-8") as f:
        f.write("BEGIN_RESULT_Y\n" + space.to_str(pk) + "\nEND_RESULT_Y\n")
    try:
        back = Packing.from_log(path, inst)
        err = None
    except (ValueError, TypeError) as e:
        back = None
        err = f"{type(e).__name__}: {str(e)[:100]}"
    code = P.feasible_intervals(mat, rows_inst, W, H, nb)
    if (err is None) != (code == P.OK):
        ctx_bads.append((("from_log|" + classify(
            inst, rows_inst, mat, nb, err is None, code)), W, H, rows_inst,
            np.asarray(mat).tolist(), nb, err, P.CODE_NAMES[code],
            "Packing.from_log(file with to_str(x) as RESULT_Y, instance)"))
    elif back is not None and not (
            np.array_equal(np.asarray(back), np.asarray(mat))
            and back.n_bins == nb and back.instance is inst):
        ctx_bads.append(("from_log|round trip differs", W, H, rows_inst,
                         np.asarray(mat).tolist(), nb,
                         np.asarray(back).tolist(), "equal",
                         "Packing.from_log(file with to_str(x) as RESULT_Y, "
                         "instance)"))
    return 1


#: per instance, the log-file route is taken for this many feasible packings
LOG_PACKINGS = 2


def job(a):
    import os
    import tempfile

    from moptipyapps.binpacking2d.packing import Packing
    from moptipyapps.binpacking2d.packing_space import PackingSpace
    W, H, kmin, kmax, shard, nshards, double = a
    C.gen_drivers()
    shm = "/dev/shm" if os.path.isdir("/dev/shm") else None
    fd, logp = tempfile.mkstemp(prefix="c04_", suffix=".txt", dir=shm)
    os.close(fd)
    try:
        return _job(a, Packing, PackingSpace, logp)
    finally:
        os.unlink(logp)


def _job(a, Packing, PackingSpace, logp):
    W, H, kmin, kmax, shard, nshards, double = a
    bads = []
    prev = None
    cnt = 0
    npk = 0
    acc = 0
    for idx, rows in enumerate(C.enum_instances(W, H, kmax, kmin)):
        if idx % nshards != shard:
            continue
        inst, res, _, _, store, _ = C.all_packings(W, H, rows, 200000)
        if res[9]:
            bads.append(("harness|cap", W, H, rows, [], 0, "", "", ""))
        n = inst.n_items
        space = PackingSpace(inst)
        pk = Packing(inst)
        rows_inst = [[int(v) for v in r] for r in np.asarray(inst)]
        alpha = alphabet(W, H, inst)
        # the space of the previous instance is still alive: it must go on
        # accepting its own feasible packing after another space was made
        if prev is not None:
            cnt += 1
            out = validate_outcome(prev[0], prev[1])
            if out is not None:
                bads.append(("validate|rejects feasible packing|after a "
                             "space for another instance was created",
                             prev[2], prev[3], prev[4],
                             np.asarray(prev[1]).tolist(), prev[1].n_bins,
                             out, "ok", f"then PackingSpace for bin {W}x{H} "
                             f"items={rows} was created"))
        prev = None
        if len(store):
            keep = Packing(inst)
            keep[:, :] = store[0]
            keep.n_bins = int(np.asarray(store[0])[:, 1].max())
            prev = (space, keep, W, H, rows)
        for si, s in enumerate(store):
            base = np.array(s, np.int64)
            k = int(base[:, 1].max())
            npk += 1
            cnt += check_matrix(bads, space, inst, rows_inst, pk, base, k,
                                "feasible packing")
            cnt += check_roundtrip(bads, space, inst, rows_inst, pk, base,
                                   True)
            if si < LOG_PACKINGS:
                cnt += check_log(bads, logp, space, inst, rows_inst, pk,
                                 base)
            for nb in (k - 1, k + 1, 0, None):
                cnt += check_matrix(bads, space, inst, rows_inst, pk, base,
                                    nb, "n_bins corrupted")
            cells = [(i, j) for i in range(n) for j in range(6)]
            for (i, j) in cells:
                o = base[i, j]
                for v in alpha:
                    if v == o:
                        continue
                    m = base.copy()
                    m[i, j] = v
                    for nb in {k, int(max(m[:, 1].max(), 0))}:
                        cnt += check_matrix(bads, space, inst, rows_inst,
                                            pk, m, nb, "1 field corrupted")
                    if v >= 0:
                        cnt += check_roundtrip(bads, space, inst, rows_inst,
                                               pk, m, False)
                        if si < LOG_PACKINGS:
                            cnt += check_log(bads, logp, space, inst,
                                             rows_inst, pk, m)
            if double and n <= 2:
                for (c1, c2) in itertools.combinations(cells, 2):
                    for v1 in alpha:
                        if v1 == base[c1]:
                            continue
                        for v2 in alpha:
                            if v2 == base[c2]:
                                continue
                            m = base.copy()
                            m[c1] = v1
                            m[c2] = v2
                            nb = int(max(m[:, 1].max(), 0))
                            cnt += check_matrix(bads, space, inst, rows_inst,
                                                pk, m, nb,
                                                "2 fields corrupted")
            if len(bads) > 40:
                break
        # structural faults: dtype, shape, foreign instance, not a packing
        other = C.make_instance(W, H, rows, name="other")
        fp = Packing(other)
        if len(store):
            fp[:, :] = store[0]
            fp.n_bins = int(store[0][:, 1].max())
            if validate_outcome(space, fp) is None:
                bads.append(("validate|accepts packing of another instance",
                             W, H, rows, np.asarray(fp).tolist(), fp.n_bins,
                             None, "foreign instance", "structural"))
            wrong = np.asarray(store[0]).astype(
                np.int64 if inst.dtype != np.int64 else np.int32)
            if validate_outcome(space, wrong) is None:
                bads.append(("validate|accepts a plain ndarray", W, H, rows,
                             wrong.tolist(), 0, None, "not a Packing",
                             "structural"))
            cnt += 2
        if len(bads) > 40:
            break
    # which feasible packings were accepted is implied: no bad => all
    return cnt, npk, bads, acc


def mid_instances(scale):
    """Instances with side lengths from {scale, 2*scale, 4*scale}."""
    sides = (scale, 2 * scale, 4 * scale)
    types = [(w, h) for w in sides for h in sides]
    out = []
    for (W, H) in ((4 * scale, 2 * scale), (6 * scale, 4 * scale),
                   (5 * scale, 2 * scale)):
        ok = [t for t in types
              if (t[0] <= W and t[1] <= H) or (t[1] <= W and t[0] <= H)]
        for k in (2, 3):
            for ms in itertools.combinations_with_replacement(ok, k):
                rows = []
                for t in ms:
                    if rows and rows[-1][:2] == list(t):
                        rows[-1][2] += 1
                    else:
                        rows.append([t[0], t[1], 1])
                out.append((W, H, rows))
    return out


def mid_job(a):
    """
    Mid-size bins: every item of every decoder packing translated to every
    candidate position (all left / bottom / right / top coordinates occurring
    in the packing, 0, and the bin ends), in both orientations. Areas here
    exceed the range of the instance's compact storage type.
    """
    from moptipyapps.binpacking2d.packing import Packing
    from moptipyapps.binpacking2d.packing_space import PackingSpace
    scale, shard, nshards = a
    bads = []
    cnt = 0
    npk = 0
    for idx, (W, H, rows) in enumerate(mid_instances(scale)):
        if idx % nshards != shard:
            continue
        inst = C.make_instance(W, H, rows)
        space = PackingSpace(inst)
        pk = Packing(inst)
        rows_inst = [[int(v) for v in r] for r in np.asarray(inst)]
        n = inst.n_items
        seen = set()
        for x in C.signed_perms(rows):
            for enc in (1, 2):
                base, k, _ = C.public_decode(inst, enc, x)
                key = base.tobytes()
                if key in seen:
                    continue
                seen.add(key)
                npk += 1
                cnt += check_matrix(bads, space, inst, rows_inst, pk, base,
                                    k, "decoder packing (mid-size)")
                xs = sorted({0, W} | {int(v) for v in base[:, 2]}
                            | {int(v) for v in base[:, 4]})
                ys = sorted({0, H} | {int(v) for v in base[:, 3]}
                            | {int(v) for v in base[:, 5]})
                for i in range(n):
                    w = int(base[i, 4] - base[i, 2])
                    h = int(base[i, 5] - base[i, 3])
                    for (ww, hh) in {(w, h), (h, w)}:
                        for b in range(1, k + 1):
                            for x0 in xs:
                                for y0 in ys:
                                    m = base.copy()
                                    m[i, 1] = b
                                    m[i, 2] = x0
                                    m[i, 3] = y0
                                    m[i, 4] = x0 + ww
                                    m[i, 5] = y0 + hh
                                    if np.array_equal(m, base):
                                        continue
                                    nb = int(m[:, 1].max())
                                    cnt += check_matrix(
                                        bads, space, inst, rows_inst, pk, m,
                                        nb, "item translated (mid-size)")
                if len(bads) > 10:
                    return cnt, npk, bads
    return cnt, npk, bads


def full_matrix_job(a):
    """1-item instances: the whole matrix space over the alphabet."""
    from moptipyapps.binpacking2d.packing import Packing
    from moptipyapps.binpacking2d.packing_space import PackingSpace
    W, H, w, h = a
    rows = [[w, h, 1]]
    inst = C.make_instance(W, H, rows)
    space = PackingSpace(inst)
    pk = Packing(inst)
    bads = []
    cnt = 0
    ok = 0
    vals = list(range(-1, max(W, H) + 2))
    for m in itertools.product(vals, repeat=6):
        mat = np.array([m], np.int64)
        for nb in (1, int(max(m[1], 0))):
            cnt += check_matrix(bads, space, inst, rows, pk, mat, nb,
                                "full matrix space")
        if P.feasible_intervals(mat, rows, W, H, 1) == P.OK:
            ok += 1
        if len(bads) > 10:
            break
    return cnt, ok, bads


def big_bins(bads):
    """Bins with a side > 1e9 (thin, constructible)."""
    from moptipyapps.binpacking2d.packing import Packing
    from moptipyapps.binpacking2d.packing_space import PackingSpace
    cnt = 0
    for (W, H, rows, mat) in [
            (2_000_000_000, 3, [[5, 2, 1], [1, 1, 1]],
             [[1, 1, 0, 0, 5, 2], [2, 1, 5, 0, 6, 1]]),
            (3, 2_000_000_000, [[2, 5, 1], [1, 1, 1]],
             [[1, 1, 0, 0, 2, 5], [2, 1, 2, 0, 3, 1]]),
            (1_000_000_000, 1, [[7, 1, 2]],
             [[1, 1, 0, 0, 7, 1], [1, 1, 7, 0, 14, 1]]),
            (1_000_000_001, 1, [[7, 1, 2]],
             [[1, 1, 0, 0, 7, 1], [1, 2, 0, 0, 7, 1]]),
            (10 ** 12, 1, [[10 ** 12, 1, 1], [1, 1, 1]],
             [[1, 1, 0, 0, 10 ** 12, 1], [2, 2, 0, 0, 1, 1]])]:
        inst = C.make_instance(W, H, rows)
        space = PackingSpace(inst)
        pk = Packing(inst)
        m = np.array(mat, np.int64)
        k = int(m[:, 1].max())
        cnt += check_matrix(bads, space, inst, rows, pk, m, k,
                            "bin side > 1e9")
        cnt += check_roundtrip(bads, space, inst, rows, pk, m, True)
        m2 = m.copy()
        m2[0, 4] += 1  # one unit too wide
        cnt += check_matrix(bads, space, inst, rows, pk, m2, k,
                            "bin side > 1e9, corrupted")
    return cnt


def report(ctx, b):
    sig, W, H, rows, mat, nb, out, code, what = b
    ctx.violation(
        sig, f"bin {W}x{H} items={rows} matrix={mat} n_bins={nb} [{what}]: "
        f"validate -> {out or 'accepted'}; independent predicate -> {code}",
        {"W": W, "H": H, "rows": rows, "matrix": mat, "n_bins": nb,
         "route": "from_log" if sig.startswith("from_log") else "validate"})


def specs(ctx):
    q = [(1, 1, 1, 3, True), (2, 1, 1, 3, True), (1, 2, 1, 3, True),
         (2, 2, 1, 2, True), (2, 2, 3, 3, False), (3, 1, 1, 3, True),
         (3, 2, 1, 2, False), (3, 2, 3, 3, False), (3, 3, 1, 2, False),
         (4, 1, 1, 3, False), (4, 2, 1, 2, False), (2, 3, 1, 2, False)]
    if ctx.quick:
        return q
    return [(W, H, a, b, True if b <= 2 else d) for (W, H, a, b, d) in q] \
        + [(3, 3, 3, 3, False), (2, 3, 3, 3, False), (1, 4, 1, 3, True),
           (5, 1, 1, 3, False)]


def run(ctx: Ctx) -> None:
    C.gen_drivers()
    jobs = []
    for (W, H, kmin, kmax, dbl) in specs(ctx):
        ns = ctx.jobs if kmax >= 3 or dbl else 4
        jobs += [(W, H, kmin, kmax, s, ns, dbl) for s in range(ns)]
    jobs.sort(key=lambda j: -((j[0] * j[1]) ** j[3] * (50 if j[6] else 1)))
    out = pmap(job, jobs, ctx.jobs)
    cnt = npk = 0
    for (c, n, bads, _) in out:
        cnt += c
        npk += n
        for b in bads:
            report(ctx, b)
    ctx.part("feasible_packings_and_corruptions", feasible_packings=npk,
             validations=cnt, specs=[list(s) for s in specs(ctx)])
    ctx.log(f"{npk} feasible packings, {cnt} validate/from_str executions "
            f"(0, 1, 2 corrupted fields)")
    fj = [(W, H, w, h) for W in (1, 2) for H in (1, 2)
          for (w, h) in C.item_types(W, H)]
    if not ctx.quick:
        fj += [(3, 1, w, h) for (w, h) in C.item_types(3, 1)]
    out = pmap(full_matrix_job, fj, ctx.jobs)
    fc = fok = 0
    for (c, ok, bads) in out:
        fc += c
        fok += ok
        for b in bads:
            report(ctx, b)
    ctx.part("full_matrix_space_one_item", instances=len(fj), matrices=fc,
             feasible=fok)
    ctx.log(f"full matrix space of {len(fj)} one-item instances: {fc} "
            f"validations, {fok} feasible")
    # mid-size bins (areas beyond the compact storage type)
    scales = (8,) if ctx.quick else (8, 64, 3)
    mj = [(sc, s_, ctx.jobs) for sc in scales for s_ in range(ctx.jobs)]
    out = pmap(mid_job, mj, ctx.jobs)
    mc = mp = 0
    for (c, n, bads) in out:
        mc += c
        mp += n
        for b in bads:
            report(ctx, b)
    cnt += mc
    npk += mp
    ctx.part("mid_size_bins_item_translations", scales=list(scales),
             decoder_packings=mp, validations=mc)
    ctx.log(f"mid-size bins (side unit {scales}): {mp} decoder packings, "
            f"{mc} validations of translated items")
    bads = []
    bc = big_bins(bads)
    for b in bads:
        report(ctx, b)
    ctx.part("bins_with_side_above_1e9", validations=bc)
    total = cnt + fc + bc
    ctx.add("evaluations", total)
    ctx.add("traces_validated_against_impl", total)
    ctx.add("states", npk)
    ctx.add("transitions", total)
    ctx.cov["distinct_nontrivial"] = npk + fok
    ctx.cov["rule"] = (
        "every feasible packing of every instance within the specs "
        "(explicit-state placement search) with 0 corrupted fields, every "
        "single-field corruption over the value alphabet, every double-"
        "field corruption for <=2 items, n_bins faults, structural faults;"
        " the first two feasible packings of every instance and their "
        "single-field corruptions also through Packing.from_log;"
        " non-trivial = distinct feasible packings (accepted side of the "
        "iff) - all others are the rejected side")
    ctx.sample({"bin": [3, 2], "items": [[2, 1, 1], [1, 1, 1]],
                "matrix": [[1, 1, 0, 0, 2, 1], [2, 1, 2, 0, 3, 1]],
                "corruption": "cell (1,2) := 1 -> overlap, must be "
                              "rejected"})
    ctx.assume("bins up to 3x3 / 4x2 / 5x1, up to 3 items; corruption "
               "values -1..max(W,H)+1 plus id/bin range + 1")


def replay(ctx: Ctx, rep: dict) -> bool:
    from moptipyapps.binpacking2d.packing import Packing
    from moptipyapps.binpacking2d.packing_space import PackingSpace
    inst = C.make_instance(rep["W"], rep["H"], rep["rows"])
    space = PackingSpace(inst)
    pk = Packing(inst)
    mat = np.array(rep["matrix"], np.int64)
    pk[:, :] = mat
    nb = rep["n_bins"]
    if rep.get("route") == "from_log":
        import os
        import tempfile
        fd, path = tempfile.mkstemp(suffix=".txt")
        os.close(fd)
        bads = []
        try:
            check_log(bads, path, space, inst, rep["rows"], pk, mat)
        finally:
            os.unlink(path)
        print("Packing.from_log:", bads or "agrees with the predicate")
        return not bads
    pk.n_bins = nb
    out = validate_outcome(space, pk)
    code = P.feasible_intervals(mat, rep["rows"], rep["W"], rep["H"], nb) \
        if isinstance(nb, int) else P.BAD_NBINS
    print(f"validate: {out or 'accepted'}; predicate: {P.CODE_NAMES[code]}")
    return (out is None) == (code == P.OK)
