"""
C06: the TSP (1+1) EA / FEA hand true tour lengths to the process.

Two engines over the same symmetric instances:

1. *Algorithm under a scripted environment*: the real ``solve()`` of both
   algorithms runs against a stub process whose random source is scripted
   (``shuffle`` installs a chosen start tour, ``integers`` replays a list of
   answers, ``should_terminate`` turns true when the script is exhausted).
   All start tours x all answer scripts of a given length are enumerated, so
   every behaviour of the real loop (ordering of i and j, skipped draws, the
   i = 0 and j = n-2 edge cases) up to that depth is executed.  The name
   ``np`` inside the FEA module is replaced by a proxy whose ``zeros`` hands
   out a view into a guard-padded buffer: an access beyond the frequency
   table damages a guard cell instead of foreign memory.
2. *Kernel closure*: explicit-state search through the real move kernels
   inside a numba driver: multi-source BFS from every start tour to the
   fixpoint for the EA state (x, y); depth-bounded BFS with the frequency
   table in the state key for the FEA state (x, y, h), h again being a view
   into a guard-padded buffer.

Oracle (per (x, y) handed to the process / returned by a kernel): x is a
permutation, y is the big-int cyclic edge sum of x, EA: the new tour is not
longer than the previous one, FEA: 0 <= y <= upper bound and no guard cell
was touched.  A complete reference model of both algorithms is run
alongside; its agreement is counted as evidence
(traces_validated_against_impl) but a deviation from it that respects the
clauses above is not a violation of the statement.
"""
import itertools

import numpy as np

from mc.core import Ctx, HarnessError, pmap
from models import tsp as M

GUARD = -7070707
ALGOS = ("ea", "fea")
KIND = {
    0: "initial evaluation differs from the cyclic edge sum",
    1: "x is not a permutation of the cities",
    2: "reported length differs from the cyclic edge sum of x",
    3: "EA replaced its tour by a longer one",
    4: "FEA length outside 0..upper bound",
    5: "frequency table addressed outside 0..upper bound (guard cell hit)",
    6: "the move kernel / solve() raised an exception",
}


# ------------------------------------------------------------ the instances
def family_size(fam):
    if fam[0] == "sym":
        return M.n_matrices(fam[1], fam[2], True)
    return 1 << len(M.upper_cells(6)) if fam[2] is None else 1 << fam[2]


def family_matrix(fam, idx):
    """The idx-th matrix of the family or None if outside the quantifier."""
    if fam[0] == "sym":
        m = M.matrix_from_index(fam[1], fam[2], idx, True)
        return m if M.row_positive(m) else None
    return M.perturbed(M.metric6_base(fam[1]), idx)


def family_name(fam):
    if fam[0] == "sym":
        return f"n{fam[1]}_" + "_".join(str(v) for v in fam[2])
    return f"n6_metric{fam[1]}_perturbed"


def family_n(fam):
    return fam[1] if fam[0] == "sym" else 6


def make_instance(m):
    from moptipyapps.tsp.instance import Instance
    return Instance("c06", 0, np.array(m, np.int64))


def space_dtype(n):
    from moptipy.spaces.permutations import Permutations
    return Permutations.standard(n).dtype


# ---------------------------------------------------- engine 1: real solve()
class _NPProxy:
    """Stands in for the module-level name ``np`` of fea1p1_revn."""

    def __init__(self):
        self.pad = 64
        self.buf = None
        self.view = None
        self.calls = 0

    def __getattr__(self, name):
        return getattr(np, name)

    def zeros(self, shape, dtype=float, *a, **kw):
        self.calls += 1
        if not isinstance(shape, (int, np.integer)) or a or kw:
            self.buf = None
            self.view = np.zeros(shape, dtype, *a, **kw)
            return self.view
        size = int(shape)
        if size > (1 << 22):
            # a huge table (upper bound of 2^27 and more): leave the pages
            # untouched, only the guard zones are written
            self.buf = np.zeros(size + 2 * self.pad, dtype)
            self.buf[:self.pad] = GUARD
            self.buf[self.pad + size:] = GUARD
            self.view = self.buf[self.pad:self.pad + size]
        else:
            self.buf = np.full(size + 2 * self.pad, GUARD, dtype)
            self.view = self.buf[self.pad:self.pad + size]
            self.view[:] = 0
        self.ref = self.buf[:self.pad].tobytes()
        # remember the tables handed out recently (in this process): a
        # solve() that keeps using an OLD table must not escape the guards
        _NPProxy.RECENT.append((self.buf, self.pad))
        del _NPProxy.RECENT[:-16]
        return self.view

    RECENT: list = []

    def guard_damage(self):
        dmg = 0
        for buf, p in _NPProxy.RECENT:
            lo = buf[:p]
            hi = buf[len(buf) - p:]
            if (lo == GUARD).all() and (hi == GUARD).all():
                continue
            dmg += int((lo != GUARD).sum() + (hi != GUARD).sum())
            lo[:] = GUARD          # count each damage once
            hi[:] = GUARD
        return dmg


def _process_base():
    """moptipy's Process class (log_h() insists on a Process instance)."""
    try:
        from moptipy.api.process import Process
        return Process
    except Exception:  # noqa
        return object


class _Stub(_process_base()):
    """Scripted random source + process in one object."""

    def has_log(self):
        return True

    def add_log_section(self, title, text):
        self.sections.append((title, text))

    def __init__(self, n, f, lens, ub, algo):
        self.n = n
        self.nm1 = n - 1
        self.f = f
        self.lens = lens
        self.ub = ub
        self.ea = algo == "ea"
        self.dtype = space_dtype(n)
        self.reset((), ())

    def reset(self, start, script, cycle=False, horizon=None,
              keep=True):
        self.start = start
        self.script = script
        self.len = len(script)
        self.pos = 0
        self.prev = None
        self.trace = []
        self.bad = None
        # cycle: the script is repeated for ever; horizon = number of loop
        # iterations (calls of should_terminate that answer False)
        self.cycle = cycle
        self.horizon = self.len // 2 if horizon is None else horizon
        self.asked = 0
        self.keep = keep
        self.count = 0
        self.padded = 0      # draws answered with 0 beyond the script
        self.misrange = 0    # draws from another range than range(n-1)
        self.blocks = 0      # draws of whole blocks (size=...)
        self.terminated = False
        self.shuffles = 0
        self.best = None     # (x, y) the process holds as best so far
        self.sections = []

    # random source
    def shuffle(self, x):
        """First call: the start tour; later calls: the next permutation."""
        self.shuffles += 1
        if self.shuffles == 1:
            x[:] = self.start
            return
        v = x.tolist()
        k = len(v) - 2
        while k >= 0 and v[k] >= v[k + 1]:
            k -= 1
        if k < 0:
            v.reverse()
        else:
            j = len(v) - 1
            while v[j] <= v[k]:
                j -= 1
            v[k], v[j] = v[j], v[k]
            v[k + 1:] = reversed(v[k + 1:])
        x[:] = v

    def _next(self, high):
        if self.pos >= self.len:
            if not self.cycle or self.len == 0:
                self.padded += 1
                return 0
            self.pos = 0
        v = self.script[self.pos]
        self.pos += 1
        if v >= high:
            v = 0
        return v

    def integers(self, low, high=None, size=None, dtype=np.int64,
                 endpoint=False):
        """Signature of numpy.random.Generator.integers."""
        if high is None:
            low, high = 0, low
        low = int(low)
        high = int(high) + (1 if endpoint else 0)
        if low != 0 or high != self.nm1:
            self.misrange += 1
        if size is None:
            return np.dtype(dtype).type(low + self._next(high - low))
        self.blocks += 1
        out = np.empty(size, dtype)
        flat = out.reshape(-1)
        m = flat.shape[0]
        if self.cycle and self.len:
            k = 0       # whole repetitions of the script are copied
            while k < m and self.pos != 0:
                flat[k] = low + self._next(high - low)
                k += 1
            if k < m:
                base = np.array([v if v < high - low else 0
                                 for v in self.script], dtype) + low
                reps = (m - k) // self.len
                if reps:
                    flat[k:k + reps * self.len] = np.tile(base, reps)
                    k += reps * self.len
                while k < m:
                    flat[k] = low + self._next(high - low)
                    k += 1
            return out
        k = 0
        while k < m and self.pos < self.len:
            flat[k] = low + self._next(high - low)
            k += 1
        if k < m:       # beyond the script: answered with 0
            flat[k:] = low
            self.padded += m - k
        return out

    # process
    def get_random(self):
        return self

    # best-so-far interface of a process (a process that continues an
    # earlier stage already holds a best solution before solve() starts)
    def seed_best(self, x, y):
        self.best = (tuple(x), y)

    def has_best(self):
        return self.best is not None

    def get_best_f(self):
        return self.best[1] if self.best is not None else float("inf")

    def get_copy_of_best_x(self, x):
        x[:] = self.best[0]

    def get_copy_of_best_y(self, y):
        y[:] = self.best[0]

    def should_terminate(self):
        if self.terminated or self.asked >= self.horizon:
            return True
        self.asked += 1
        return False

    def terminate(self):
        self.terminated = True

    def create(self):
        return np.empty(self.n, self.dtype)

    def evaluate(self, x):
        y = self.f.evaluate(x)
        self._check(x, y, True)
        return y

    def register(self, x, y):
        self._check(x, y, False)

    def _check(self, x, y, initial):
        t = tuple(x.tolist())
        if self.best is None or y < self.best[1]:
            self.best = (t, y)
        self.count += 1
        if self.keep:
            self.trace.append((t, int(y)))
        else:
            self.trace = self.trace[-3:] + [(t, int(y))]
        if self.bad is not None:
            return
        e = self.lens.get(t)
        kind = -1
        if e is None:
            kind = 1
        elif e != y:
            kind = 0 if initial else 2
        elif self.ea and self.prev is not None and e > self.prev:
            kind = 3
        elif not self.ea and not 0 <= y <= self.ub:
            kind = 4
        if kind >= 0:
            self.bad = (kind, self.count - 1)
        self.prev = e


def model_trace(algo, m, start, script):
    """The register sequence of the reference model (incl. initial FE)."""
    n = len(m)
    x = list(start)
    y = M.tour_length_exact(m, x)
    out = [(tuple(x), y)]
    h = {}
    for k in range(0, len(script) - 1, 2):
        mv = M.move_of_draws(script[k], script[k + 1], n)
        if mv is None:
            continue
        if algo == "ea":
            x, y = M.ea_step(m, x, y, mv[0], mv[1])
        else:
            x, y = M.fea_step(m, x, y, h, mv[0], mv[1])
        out.append((tuple(x), y))
    return out, h


def move_class(mv, n):
    if mv is None:
        return "start"
    i, j = mv
    return ("i=0" if i == 0 else "i>0") + ("," + "j=n-2" if j == n - 2
                                           else ",j<n-2")


def last_move(script, upto, n):
    """The move behind the upto-th register (1-based among non-skipped)."""
    cnt = 0
    for k in range(0, len(script) - 1, 2):
        mv = M.move_of_draws(script[k], script[k + 1], n)
        if mv is None:
            continue
        cnt += 1
        if cnt == upto:
            return mv
    return None


class SolveRunner:
    """Runs the real solve() of one algorithm on one instance."""

    def __init__(self, m, algo):
        from moptipyapps.tsp.tour_length import TourLength
        self.m = m
        self.n = len(m)
        self.algo = algo
        self.inst = make_instance(m)
        self.ub = int(self.inst.tour_length_upper_bound)
        self.lens = M.all_tour_lengths(m)
        self.stub = _Stub(self.n, TourLength(self.inst), self.lens, self.ub,
                          algo)
        if algo == "ea":
            from moptipyapps.tsp.ea1p1_revn import TSPEA1p1revn
            self.alg = TSPEA1p1revn(self.inst)
            self.proxy = None
        else:
            import moptipyapps.tsp.fea1p1_revn as fm
            from moptipyapps.tsp.fea1p1_revn import TSPFEA1p1revn
            # "fea_h": the variant that logs its frequency table at the end
            self.alg = TSPFEA1p1revn(self.inst, True) if algo == "fea_h" \
                else TSPFEA1p1revn(self.inst)
            self.fm = fm
            self.proxy = _NPProxy()
            self.proxy.pad = min(1 << 12,
                                 max(64, 2 * max(max(r) for r in m) + 8))

    def run(self, start, script, cycle=False, horizon=None, keep=True,
            seeded=False):
        """-> (failing clause or -1, index of the hand-over concerned)."""
        s = self.stub
        s.reset(start, script, cycle, horizon, keep)
        if seeded:   # the process already knows a shortest tour
            bx = min(self.lens, key=lambda q: (self.lens[q], q))
            s.seed_best(bx, self.lens[bx])
        self.error = None
        self.odd = 0
        try:
            if self.proxy is None:
                self.alg.solve(s)
                dmg = 0
            else:
                old = self.fm.np
                self.fm.np = self.proxy
                self.proxy.buf = self.proxy.view = None
                try:
                    self.alg.solve(s)
                finally:
                    self.fm.np = old
                dmg = self.proxy.guard_damage()
        except HarnessError:
            raise
        except Exception as e:  # noqa
            if s.bad is not None:
                return s.bad[0], s.bad[1]
            self.error = f"{type(e).__name__}: {e}"
            return 6, s.count
        # how solve() used the scripted environment (evidence only)
        self.odd = (s.padded > 0) + 2 * (s.misrange > 0) \
            + 4 * (s.blocks > 0) + 8 * (s.asked < s.horizon)
        if s.bad is not None:
            return s.bad[0], s.bad[1]
        if dmg:
            return 5, s.count - 1
        return -1, s.count - 1


def _solve_job(a):
    fam, lo, hi, depth, algos, short = a[:6]
    seeded = len(a) > 6 and a[6]
    n = family_n(fam)
    perms = list(itertools.permutations(range(n)))
    scripts = list(itertools.product(range(n - 1), repeat=2 * depth))
    if short:
        for d in range(depth):
            scripts += list(itertools.product(range(n - 1), repeat=2 * d))
    runs = 0
    regs = 0
    agree = 0
    insts = 0
    tables = 0
    attained = 0
    odd = [0, 0, 0, 0]
    bad = {}
    for idx in range(lo, hi):
        m = family_matrix(fam, idx)
        if m is None:
            continue
        insts += 1
        for algo in algos:
            r = SolveRunner(m, algo)
            if max(r.lens.values()) == r.ub:
                attained += 1
            for start in perms:
                for script in scripts:
                    kind, at = r.run(start, script, seeded=seeded)
                    runs += 1
                    regs += len(r.stub.trace)
                    for b in range(4):
                        odd[b] += (r.odd >> b) & 1
                    mt, mh = model_trace(algo, m, start, script)
                    ok = mt == r.stub.trace
                    guarded = r.proxy is not None \
                        and r.proxy.buf is not None
                    if guarded:
                        tables += 1
                    if ok and guarded and len(r.proxy.view) <= (1 << 22):
                        hv = r.proxy.view
                        nz = np.flatnonzero(hv)
                        ok = {int(k): int(hv[k]) for k in nz} == mh
                    if ok:
                        agree += 1
                    if kind >= 0:
                        mv = last_move(script, at, n)
                        key = (algo, kind, move_class(mv, n) + (
                            "|process seeded with a best tour" if seeded
                            else ""))
                        if key not in bad:
                            bad[key] = (idx, start, script, at)
    return runs, regs, agree, insts, tables, attained, bad, odd


def solve_case(m, algo, start, script, seeded=False):
    """Re-run one scripted solve(); returns (kind, at, trace, model)."""
    r = SolveRunner(m, algo)
    kind, at = r.run(tuple(start), tuple(script), seeded=seeded)
    mt, _ = model_trace(algo, m, start, script)
    tr = list(r.stub.trace)
    if r.error:
        tr.append(r.error)
    return kind, at, tr, mt


def report_solve(ctx, fam, key, rec):
    algo, kind, mc = key
    idx, start, script, at = rec
    m = family_matrix(fam, idx)
    seeded = "seeded" in mc
    k2, at2, trace, mt = solve_case(m, algo, start, script, seeded)
    hidden = ""
    if k2 != kind:
        # The enumeration is deterministic (scripted random source), so a
        # run that fails inside it but not when executed alone means that
        # solve() depends on earlier runs in the same process (hidden
        # state, e.g. a cached table).
        hidden = "|only after earlier runs in the same process"
    n = len(m)
    draws = [list(script[k:k + 2]) for k in range(0, len(script), 2)]
    got = trace[at] if at < len(trace) else None
    exact = "n/a"
    if isinstance(got, tuple) and M.is_permutation(got[0], n):
        exact = M.tour_length_exact(m, got[0])
    ctx.violation(
        f"{algo}.solve|{KIND[kind]}|{mc}{hidden}",
        f"{KIND[kind]}{hidden.replace('|', ' [')}{']' if hidden else ''}: "
        f"{algo.upper()} solve() on n={n} matrix={m} start "
        f"tour={list(start)} draws={draws}: hand-over #{at} (0 = initial "
        f"evaluation) was {got}, exact length of that x = {exact}, "
        f"upper bound={sum(max(r) for r in m)}; "
        f"reference model sequence={mt}",
        {"engine": "solve", "algo": algo, "matrix": m, "start": list(start),
         "script": list(script), "kind": kind, "observed": trace,
         "seeded": seeded,
         "model": mt,
         "pytest": PYTEST_SOLVE})


PYTEST_SOLVE = '''
# run "/venv/bin/python /verif/check.py C06 --replay <this file>", or: build
# Instance("c06", 0, np.array(matrix)), a process stub whose get_random()
# returns an object with shuffle(x): x[:] = start and integers(h): next
# script value, should_terminate(): script exhausted, evaluate =
# TourLength(inst).evaluate, register(x, y): assert sorted(x) == range(n)
# and y == sum(matrix[x[k]][x[(k+1) % n]] for k in range(n)); then call
# TSPEA1p1revn(inst).solve(stub) / TSPFEA1p1revn(inst).solve(stub).
'''


ODD = ("solve() asked for more random numbers than two per loop iteration "
       "(answered with 0)",
       "solve() drew from another range than range(n-1) (script values "
       "outside that range answered with 0)",
       "solve() draws whole blocks of random numbers",
       "solve() stopped before the iteration horizon")


def _odd_caps(ctx, name, odd):
    for b in range(4):
        if odd[b]:
            ctx.cap(f"{name}: {ODD[b]} in {odd[b]} runs: the scripts do not "
                    "steer the loop as intended, the enumeration may cover "
                    "less than stated")


def _solve(ctx, fam, depth, lo=0, hi=None, algos=ALGOS, short=False,
           seeded=False):
    total = family_size(fam)
    if hi is None:
        hi = total
    span = hi - lo
    nch = max(1, min(ctx.jobs * 4, span))
    b = [lo + span * i // nch for i in range(nch + 1)]
    jobs = [(fam, b[i], b[i + 1], depth, algos, short, seeded)
            for i in range(nch) if b[i] < b[i + 1]]
    out = pmap(_solve_job, jobs, ctx.jobs)
    runs = sum(r[0] for r in out)
    regs = sum(r[1] for r in out)
    agree = sum(r[2] for r in out)
    insts = sum(r[3] for r in out)
    tables = sum(r[4] for r in out)
    att = sum(r[5] for r in out)
    name = f"solve_{family_name(fam)}_d{depth}" + (
        "_seeded" if seeded else "")
    ctx.add("evaluations", runs)
    ctx.add("transitions", regs)
    ctx.add("traces_validated_against_impl", agree)
    ctx.part(name, matrices=span, of_total=total, instances=insts,
             algorithms=list(algos), draws_per_script=2 * depth,
             shorter_scripts_too=short, solve_runs=runs,
             handovers_checked=regs, runs_equal_to_reference_model=agree,
             guarded_frequency_tables=tables,
             algo_instances_where_a_tour_attains_ub=att)
    ctx.log(f"{name}: instances={insts} runs={runs} handovers={regs} "
            f"model-agreement={agree} guarded tables={tables}")
    _odd_caps(ctx, name, [sum(r[7][b] for r in out) for b in range(4)])
    if any(a.startswith("fea") for a in algos) and runs and not tables:
        ctx.cap("the FEA no longer allocates its table through np.zeros: "
                "the guard buffer could not be installed in solve()")
    seen = set()
    for r in out:
        for key in sorted(r[6]):
            if key not in seen:
                seen.add(key)
                report_solve(ctx, fam, key, r[6][key])
    return runs, agree


# ------------------------------------------- engine 3: long scripted runs
def deep_scripts(n, period2):
    """Cyclic scripts: every pair repeated, all pairs in turn, all 2-cycles."""
    pairs = list(itertools.product(range(n - 1), repeat=2))
    out = [p for p in pairs]
    out.append(tuple(v for p in pairs for v in p))
    if period2:
        out += [a + b for a in pairs for b in pairs if a != b]
    return out


def _deep_job(a):
    m, algo, starts, scripts, horizon = a
    n = len(m)
    r = SolveRunner(m, algo)
    runs = regs = agree = 0
    odd = [0, 0, 0, 0]
    bad = {}
    for start in starts:
        for script in scripts:
            kind, at = r.run(start, script, True, horizon, False)
            runs += 1
            regs += r.stub.count
            for b in range(4):
                odd[b] += (r.odd >> b) & 1
            reps = -(-2 * horizon // len(script))
            mt, _ = model_trace(algo, m, start,
                                (script * reps)[:2 * horizon])
            if len(mt) == r.stub.count and r.stub.trace \
                    and mt[-1] == r.stub.trace[-1]:
                agree += 1
            if kind >= 0:
                key = (algo, kind, "within the first %d hand-overs" % (
                    1 << max(0, at).bit_length()))
                if key not in bad:
                    bad[key] = (start, script, at)
    return runs, regs, agree, bad, odd


def deep_case(m, algo, start, script, horizon):
    r = SolveRunner(m, algo)
    kind, at = r.run(tuple(start), tuple(script), True, horizon, False)
    tr = list(r.stub.trace)
    if r.error:
        tr.append(r.error)
    return kind, at, tr


def _deep(ctx, fam, idxs, horizon, period2, algos=ALGOS):
    n = family_n(fam)
    perms = list(itertools.permutations(range(n)))
    scripts = deep_scripts(n, period2)
    jobs = []
    for idx in idxs:
        m = family_matrix(fam, idx)
        if m is None:
            continue
        for algo in algos:
            for k in range(0, len(perms), 2):
                jobs.append((m, algo, perms[k:k + 2], scripts, horizon))
    out = pmap(_deep_job, jobs, ctx.jobs)
    runs = sum(r[0] for r in out)
    regs = sum(r[1] for r in out)
    agree = sum(r[2] for r in out)
    name = f"deep_{family_name(fam)}_h{horizon}"
    ctx.add("evaluations", runs)
    ctx.add("transitions", regs)
    ctx.add("traces_validated_against_impl", agree)
    ctx.part(name, matrices=len(idxs), algorithms=list(algos),
             start_tours=len(perms), cyclic_scripts=len(scripts),
             loop_iterations_per_run=horizon, solve_runs=runs,
             handovers_checked=regs,
             runs_ending_like_the_reference_model=agree)
    ctx.log(f"{name}: runs={runs} handovers={regs} model-agreement={agree}")
    _odd_caps(ctx, name, [sum(r[4][b] for r in out) for b in range(4)])
    seen = set()
    for job, r in zip(jobs, out):
        for key in sorted(r[3]):
            if key in seen:
                continue
            seen.add(key)
            algo, kind, cls = key
            start, script, at = r[3][key]
            m = job[0]
            k2, at2, tr = deep_case(m, algo, start, script, horizon)
            hidden = "" if (k2, at2) == (kind, at) else \
                "|only after earlier runs in the same process"
            ctx.violation(
                f"{algo}.solve|{KIND[kind]}|long run, {cls}{hidden}",
                f"{KIND[kind]}{hidden.replace('|', ' [')}"
                f"{']' if hidden else ''}: {algo.upper()} solve() on "
                f"n={len(m)} matrix={m} start tour={list(start)} random "
                f"source repeating {list(script)} for {horizon} loop "
                f"iterations: hand-over #{at} (0 = initial evaluation) is "
                f"wrong; last hand-overs of the re-run: {tr[-3:]}",
                {"engine": "deep", "algo": algo, "matrix": m,
                 "start": list(start), "script": list(script),
                 "horizon": horizon, "kind": kind})
    return runs, agree


# ------------------------------------------------- engine 2: kernel closure
_DRV = {}


def drivers():
    if _DRV:
        return _DRV
    import numba
    from moptipyapps.tsp.ea1p1_revn import rev_if_not_worse
    from moptipyapps.tsp.fea1p1_revn import rev_if_h_not_worse
    from moptipyapps.tsp.tour_length import tour_length
    cyc = numba.njit(cache=False)(M.cyc_len)
    isperm = numba.njit(cache=False)(M.is_perm)
    rank = numba.njit(cache=False)(M.perm_rank)
    revm = numba.njit(cache=False)(M.rev_inplace)

    @numba.njit(cache=False)
    def rec(bad, kind, r, mv, y, y2):
        if bad[kind, 0] < 0:
            bad[kind, 0] = r
            bad[kind, 1] = mv
            bad[kind, 2] = y
            bad[kind, 3] = y2
            return True
        return False

    @numba.njit(cache=False)
    def same(a, b):
        for k in range(a.shape[0]):
            if a[k] != b[k]:
                return False
        return True

    @numba.njit(cache=False)
    def ea_closure(dist, d64, perms, moves, res, bad, oc):
        """
        Multi-source BFS over EA states (x, y) to the fixpoint.

        res: 0 states, 1 transitions, 2 transitions equal to the model
        oc[i==0, j==n-2, outcome]: 0 shorter, 1 equal length and changed,
        2 unchanged
        """
        P = perms.shape[0]
        n = perms.shape[1]
        seen = np.zeros(P, np.uint8)
        ylen = np.zeros(P, np.int64)
        queue = np.empty(P, np.int64)
        head = 0
        tail = 0
        x = np.empty(n, perms.dtype)
        xm = np.empty(n, np.int64)
        scratch = np.zeros(n, np.int64)
        for r in range(P):
            y0 = tour_length(dist, perms[r])
            if y0 != cyc(d64, perms[r]):
                rec(bad, 0, r, -1, y0, cyc(d64, perms[r]))
                continue
            seen[r] = 1
            ylen[r] = y0
            queue[tail] = r
            tail += 1
        while head < tail:
            r = queue[head]
            head += 1
            y = ylen[r]
            for mv in range(moves.shape[0]):
                i = moves[mv, 0]
                j = moves[mv, 1]
                x[:] = perms[r]
                failed = False
                y2 = 0
                # (measured, numba 0.60: an exception raised inside a kernel
                # declared inline="always" is NOT caught here but leaves the
                # driver; _kernel_job then locates the call from Python)
                try:
                    y2 = rev_if_not_worse(i, j, n, dist, x, y)
                except Exception:  # noqa
                    failed = True
                res[1] += 1
                if failed:
                    rec(bad, 6, r, mv, y, 0)
                    continue
                if not isperm(x, scratch):
                    rec(bad, 1, r, mv, y, y2)
                    continue
                e = cyc(d64, x)
                if y2 != e:
                    rec(bad, 2, r, mv, y, y2)
                    continue
                if e > y:
                    rec(bad, 3, r, mv, y, y2)
                    continue
                # reference model: accept iff not longer
                for k in range(n):
                    xm[k] = perms[r, k]
                revm(xm, i, j)
                em = cyc(d64, xm)
                if em > y:
                    for k in range(n):
                        xm[k] = perms[r, k]
                    em = y
                if em == y2 and same(x, xm):
                    res[2] += 1
                a = 1 if i == 0 else 0
                b = 1 if j == n - 2 else 0
                if same(x, perms[r]):
                    oc[a, b, 2] += 1
                elif e < y:
                    oc[a, b, 0] += 1
                else:
                    oc[a, b, 1] += 1
                r2 = rank(x)
                if seen[r2] == 0:
                    seen[r2] = 1
                    ylen[r2] = y2
                    queue[tail] = r2
                    tail += 1
        res[0] += tail

    @numba.njit(cache=False)
    def fea_bfs(dist, d64, perms, moves, ub, depth, s_lo, s_hi, pad, cap,
                res, bad, badh, oc):
        """
        Depth-bounded BFS over FEA states (x, y, h) from every start tour.

        res: 0 states, 1 transitions, 2 transitions equal to the model,
        3 level cap hit, 4 transitions whose table sum did not grow by 2,
        5 largest level, 6 states merged (reached again)
        oc[i==0, j==n-2, outcome]: 0 shorter, 1 equal length and changed,
        2 longer (accepted), 3 unchanged
        """
        n = perms.shape[1]
        size = ub + 1
        buf = np.full(size + 2 * pad, GUARD, np.int64)
        h = buf[pad:pad + size]
        hm = np.zeros(size, np.int64)
        x = np.empty(n, perms.dtype)
        xm = np.empty(n, np.int64)
        scratch = np.zeros(n, np.int64)
        ra = np.empty(cap, np.int64)
        ya = np.empty(cap, np.int64)
        ha = np.zeros((cap, size), np.int32)
        rb = np.empty(cap, np.int64)
        yb = np.empty(cap, np.int64)
        hb = np.zeros((cap, size), np.int32)
        tsize = 16
        while tsize < 4 * cap:
            tsize *= 2
        table = np.empty(tsize, np.int64)
        for s in range(s_lo, s_hi):
            y0 = tour_length(dist, perms[s])
            if y0 != cyc(d64, perms[s]):
                rec(bad, 0, s, -1, y0, cyc(d64, perms[s]))
                continue
            if y0 < 0 or y0 > ub:
                rec(bad, 4, s, -1, y0, y0)
                continue
            na = 1
            ra[0] = s
            ya[0] = y0
            ha[0, :] = 0
            res[0] += 1
            for _ in range(depth):
                nb = 0
                table[:] = -1
                for a in range(na):
                    y = ya[a]
                    for mv in range(moves.shape[0]):
                        i = moves[mv, 0]
                        j = moves[mv, 1]
                        x[:] = perms[ra[a]]
                        s0 = 0
                        for k in range(size):
                            h[k] = ha[a, k]
                            s0 += ha[a, k]
                        failed = False
                        y2 = 0
                        try:
                            y2 = rev_if_h_not_worse(i, j, n, dist, h, x, y)
                        except Exception:  # noqa
                            failed = True
                        res[1] += 1
                        if failed:
                            if rec(bad, 6, ra[a], mv, y, 0):
                                badh[6, :] = ha[a]
                            continue
                        dmg = False
                        for g in range(pad):
                            if buf[g] != GUARD:
                                dmg = True
                                buf[g] = GUARD
                            if buf[pad + size + g] != GUARD:
                                dmg = True
                                buf[pad + size + g] = GUARD
                        if dmg:
                            if rec(bad, 5, ra[a], mv, y, y2):
                                badh[5, :] = ha[a]
                            continue
                        if not isperm(x, scratch):
                            if rec(bad, 1, ra[a], mv, y, y2):
                                badh[1, :] = ha[a]
                            continue
                        e = cyc(d64, x)
                        if y2 != e:
                            if rec(bad, 2, ra[a], mv, y, y2):
                                badh[2, :] = ha[a]
                            continue
                        if y2 < 0 or y2 > ub:
                            if rec(bad, 4, ra[a], mv, y, y2):
                                badh[4, :] = ha[a]
                            continue
                        s1 = 0
                        for k in range(size):
                            s1 += h[k]
                        if s1 - s0 != 2:
                            res[4] += 1
                        # reference model of the FFA step
                        for k in range(n):
                            xm[k] = perms[ra[a], k]
                        revm(xm, i, j)
                        em = cyc(d64, xm)
                        if 0 <= em <= ub:
                            for k in range(size):
                                hm[k] = ha[a, k]
                            hm[y] += 1
                            hm[em] += 1
                            if hm[em] > hm[y]:
                                for k in range(n):
                                    xm[k] = perms[ra[a], k]
                                em = y
                            if em == y2 and same(x, xm) and same(h, hm):
                                res[2] += 1
                        ia = 1 if i == 0 else 0
                        ib = 1 if j == n - 2 else 0
                        if same(x, perms[ra[a]]):
                            oc[ia, ib, 3] += 1
                        elif e < y:
                            oc[ia, ib, 0] += 1
                        elif e == y:
                            oc[ia, ib, 1] += 1
                        else:
                            oc[ia, ib, 2] += 1
                        # successor state, exact de-duplication
                        r2 = rank(x)
                        hsh = r2 * 1000003 + y2
                        for k in range(size):
                            hsh = hsh * 31 + h[k]
                        slot = hsh & (tsize - 1)
                        found = False
                        while table[slot] >= 0:
                            c = table[slot]
                            if rb[c] == r2 and yb[c] == y2:
                                eq = True
                                for k in range(size):
                                    if hb[c, k] != h[k]:
                                        eq = False
                                        break
                                if eq:
                                    found = True
                                    break
                            slot = (slot + 1) & (tsize - 1)
                        if found:
                            res[6] += 1
                            continue
                        if nb >= cap:
                            res[3] = 1
                            continue
                        table[slot] = nb
                        rb[nb] = r2
                        yb[nb] = y2
                        for k in range(size):
                            hb[nb, k] = h[k]
                        nb += 1
                res[0] += nb
                if nb > res[5]:
                    res[5] = nb
                ra, rb = rb, ra
                ya, yb = yb, ya
                ha, hb = hb, ha
                na = nb
                if na == 0:
                    break

    _DRV.update(ea_closure=ea_closure, fea_bfs=fea_bfs,
                rev_if_not_worse=rev_if_not_worse,
                rev_if_h_not_worse=rev_if_h_not_worse)
    return _DRV


def kernel_case(algo, m, p, y, htab, i, j):
    """
    One kernel call from Python (as solve() makes it, on the Instance).

    Returns (kinds that fail, x after, y returned, table after).
    """
    d = drivers()
    n = len(m)
    inst = make_instance(m)
    ub = int(inst.tour_length_upper_bound)
    x = np.array(p, space_dtype(n))
    fails = []
    hv = None
    try:
        if algo == "ea":
            y2 = d["rev_if_not_worse"](i, j, n, inst, x, y)
        else:
            pad = max(64, 2 * max(max(r) for r in m) + 8)
            buf = np.full(ub + 1 + 2 * pad, GUARD, np.int64)
            hv = buf[pad:pad + ub + 1]
            hv[:] = htab
            y2 = d["rev_if_h_not_worse"](i, j, n, inst, hv, x, y)
            if (buf[:pad] != GUARD).any() or (buf[pad + ub + 1:]
                                              != GUARD).any():
                fails.append(5)
    except Exception as e:  # noqa
        return [6], x.tolist(), f"{type(e).__name__}: {e}", None
    y2 = int(y2)
    if not M.is_permutation(x, n):
        fails.append(1)
    else:
        e = M.tour_length_exact(m, x.tolist())
        if e != y2:
            fails.append(2)
        elif algo == "ea" and e > y:
            fails.append(3)
        elif algo == "fea" and not 0 <= y2 <= ub:
            fails.append(4)
    return fails, x.tolist(), y2, None if hv is None else hv.tolist()


def _find_raise(algo, m, ub):
    """First (tour, move) from a start state whose kernel call raises."""
    n = len(m)
    moves = M.legal_moves(n)
    for r, p in enumerate(itertools.permutations(range(n))):
        y = M.tour_length_exact(m, p)
        for mv, (i, j) in enumerate(moves):
            fails = kernel_case(algo, m, list(p), y,
                                None if algo == "ea" else [0] * (ub + 1),
                                i, j)[0]
            if 6 in fails:
                return [r, mv, y, 0]
    return None


_API = {}


def kernel_api(algo):
    """
    Does the move kernel still have the interface the closure driver uses?

    (i, j, n, dist, [h,] x, y) -> integer.  A kernel with another interface
    is not a violation of the statement; the closure is then skipped (cap)
    and only solve() is explored.  Returns "" or the reason.
    """
    if algo in _API:
        return _API[algo]
    m = [[0, 1, 2, 3], [1, 0, 3, 2], [2, 3, 0, 1], [3, 2, 1, 0]]
    inst = make_instance(m)
    x = np.array([0, 1, 2, 3], space_dtype(4))
    why = ""
    try:
        if algo == "ea":
            from moptipyapps.tsp.ea1p1_revn import rev_if_not_worse as k
            r = k(1, 2, 4, inst, x, 6)
        else:
            from moptipyapps.tsp.fea1p1_revn import rev_if_h_not_worse as k
            r = k(1, 2, 4, inst, np.zeros(13, np.int64), x, 6)
        if not isinstance(r, (int, np.integer)):
            why = f"the kernel returns {type(r).__name__}, not an integer"
    except (ImportError, TypeError) as e:
        why = f"{type(e).__name__}: {e}"
    except Exception:  # noqa  (a raising kernel is found by the closure)
        why = ""
    _API[algo] = why
    return why


def _legal(n):
    return np.array(M.legal_moves(n), np.int64)


def _kernel_job(a):
    fam, lo, hi, algo, depth = a
    d = drivers()
    n = family_n(fam)
    perms = M.perms_array(n, space_dtype(n))
    moves = _legal(n)
    res = np.zeros(8, np.int64)
    oc = np.zeros((2, 2, 4), np.int64)
    insts = 0
    bads = []
    have = set()
    dts = {}
    for idx in range(lo, hi):
        m = family_matrix(fam, idx)
        if m is None:
            continue
        insts += 1
        inst = make_instance(m)
        dist = np.asarray(inst)
        dts[str(dist.dtype)] = dts.get(str(dist.dtype), 0) + 1
        d64 = np.array(m, np.int64)
        bad = np.full((7, 4), -1, np.int64)
        ub = int(inst.tour_length_upper_bound)
        badh = None if algo == "ea" else np.zeros((7, ub + 1), np.int32)
        try:
            if algo == "ea":
                d["ea_closure"](dist, d64, perms, moves, res, bad, oc)
            else:
                pad = max(64, 2 * int(d64.max()) + 8)
                cap = min(len(moves) ** depth, 200000)
                d["fea_bfs"](dist, d64, perms, moves, ub, depth, 0,
                             len(perms), pad, cap, res, bad, badh, oc)
        except Exception as ex:  # noqa
            # numba cannot catch an exception raised inside a kernel that is
            # inlined into the driver: locate the raising call from Python
            hit = _find_raise(algo, m, ub)
            if hit is None:
                raise HarnessError(
                    f"driver raised {type(ex).__name__}: {ex} on matrix "
                    f"{m} but no single kernel call from a start state "
                    "does") from ex
            bad[6, :] = hit
        for kind in range(7):
            if bad[kind, 0] >= 0:
                mv = int(bad[kind, 1])
                mc = move_class(None if mv < 0 else tuple(moves[mv]), n)
                if (kind, mc) not in have:
                    have.add((kind, mc))
                    bads.append((kind, mc, idx, bad[kind].tolist(),
                                 None if badh is None
                                 else badh[kind].tolist()))
    return res, oc, insts, bads, dts


def report_kernel(ctx, fam, algo, b):
    kind, mc, idx, rec, htab = b
    m = family_matrix(fam, idx)
    n = len(m)
    p = M.perms_array(n)[rec[0]].tolist()
    moves = M.legal_moves(n)
    y = rec[2]
    if rec[1] < 0:
        from moptipyapps.tsp.tour_length import TourLength
        got = int(TourLength(make_instance(m)).evaluate(
            np.array(p, space_dtype(n))))
        exp = M.tour_length_exact(m, p)
        if got == exp and kind == 0:
            raise HarnessError(f"C06 failure not reproducible: {b}")
        ctx.violation(
            f"{algo}-kernel|{KIND[kind]}|start",
            f"{KIND[kind]}: matrix={m} tour={p} evaluate={got} exact={exp} "
            f"upper bound={sum(max(r) for r in m)}",
            {"engine": "evaluate", "matrix": m, "perm": p, "kind": kind})
        return
    i, j = moves[rec[1]]
    fails, x2, y2, h2 = kernel_case(algo, m, p, y, htab, i, j)
    if kind not in fails:
        raise HarnessError(f"C06 kernel failure not reproducible: {b} -> "
                           f"{fails} {x2} {y2}")
    tab = "" if htab is None else \
        f" table(nonzero)={ {k: v for k, v in enumerate(htab) if v} }"
    exact = M.tour_length_exact(m, x2) if M.is_permutation(x2, n) else "n/a"
    ctx.violation(
        f"{algo}-kernel|{KIND[kind]}|{mc}",
        f"{KIND[kind]}: "
        f"{'rev_if_not_worse' if algo == 'ea' else 'rev_if_h_not_worse'}"
        f"(i={i}, j={j}) on n={n} matrix={m} x={p} y={y}{tab}: x after={x2}"
        f" returned={y2} exact length of x after={exact} upper bound="
        f"{sum(max(r) for r in m)}",
        {"engine": "kernel", "algo": algo, "matrix": m, "perm": p, "y": y,
         "table": htab, "i": int(i), "j": int(j), "kind": kind,
         "observed": [x2, y2], "exact": exact})


def _kernel(ctx, agg, fam, algo, depth=0, lo=0, hi=None):
    if kernel_api(algo):
        return
    total = family_size(fam)
    if hi is None:
        hi = total
    span = hi - lo
    nch = max(1, min(ctx.jobs * 4, span))
    b = [lo + span * i // nch for i in range(nch + 1)]
    jobs = [(fam, b[i], b[i + 1], algo, depth) for i in range(nch)
            if b[i] < b[i + 1]]
    out = pmap(_kernel_job, jobs, ctx.jobs)
    res = sum(r[0] for r in out)
    res[5] = max(int(r[0][5]) for r in out)
    oc = sum(r[1] for r in out)
    insts = sum(r[2] for r in out)
    dts = {}
    for r in out:
        for k, v in r[4].items():
            dts[k] = dts.get(k, 0) + v
    name = f"{algo}_kernel_{family_name(fam)}" + (f"_d{depth}" if depth
                                                  else "_fixpoint")
    ctx.add("states", int(res[0]))
    ctx.add("transitions", int(res[1]))
    ctx.add("evaluations", int(res[1]))
    ctx.add("traces_validated_against_impl", int(res[2]))
    agg[algo] = agg.get(algo, 0) + oc
    kv = dict(matrices=span, of_total=total, instances=insts,
              states=int(res[0]), transitions=int(res[1]),
              transitions_equal_to_reference_model=int(res[2]),
              storage_dtypes=dts,
              outcomes_by_i0_jn2=oc.tolist())
    if algo == "fea":
        kv.update(depth=depth, largest_level=int(res[5]),
                  merged_states=int(res[6]),
                  table_sum_not_grown_by_2=int(res[4]))
    ctx.part(name, **kv)
    ctx.log(f"{name}: instances={insts} states={int(res[0])} transitions="
            f"{int(res[1])} model-agreement={int(res[2])} dtypes={dts}")
    if algo == "fea" and res[3]:
        ctx.cap(f"{name}: a BFS level exceeded the state cap")
    seen = set()
    for r in out:
        for bb in r[3]:
            if (bb[0], bb[1]) not in seen:
                seen.add((bb[0], bb[1]))
                report_kernel(ctx, fam, algo, bb)


def _warm(fams):
    """Compile the drivers for every storage dtype before forking."""
    d = drivers()
    done = set()
    for fam in fams:
        n = family_n(fam)
        for idx in (0, family_size(fam) - 1):
            m = family_matrix(fam, idx)
            if m is None:
                continue
            try:
                inst = make_instance(m)
            except Exception:  # noqa
                continue
            dist = np.asarray(inst)
            key = (str(dist.dtype), n > 0)
            if key in done:
                continue
            done.add(key)
            perms = M.perms_array(n, space_dtype(n))
            moves = _legal(n)
            d64 = np.array(m, np.int64)
            ub = int(inst.tour_length_upper_bound)
            try:
                d["ea_closure"](dist, d64, perms, moves,
                                np.zeros(8, np.int64),
                                np.full((7, 4), -1, np.int64),
                                np.zeros((2, 2, 4), np.int64))
            except Exception:  # noqa  (reported by the exploration)
                pass
            try:
                if ub < 100000:
                    d["fea_bfs"](dist, d64, perms, moves, ub, 1, 0, 1, 64,
                                 16, np.zeros(8, np.int64),
                                 np.full((7, 4), -1, np.int64),
                                 np.zeros((7, ub + 1), np.int32),
                                 np.zeros((2, 2, 4), np.int64))
            except Exception:  # noqa
                pass


def run(ctx: Ctx) -> None:
    quick = ctx.quick
    f4 = ("sym", 4, [1, 2, 3])
    f5 = ("sym", 5, [1, 2])
    f4z = ("sym", 4, [0, 1, 2])
    e8 = ("sym", 4, [1, 31, 32])
    e16 = ("sym", 4, [1, 8191, 8192])
    e16s = ("sym", 4, [1, 8192])
    e32 = ("sym", 4, [1, 2 ** 29 - 1, 2 ** 29])
    big = ("sym", 4, [1, 10 ** 12])
    # distances beyond int32 (the EA runs on whatever the instance stores)
    big31 = ("sym", 4, [2 ** 31 - 1, 2 ** 31, 3 * 10 ** 9])
    met = [("met6", k, None) for k in range(3)]
    f4b = ("sym", 4, [1, 2])
    for algo in ALGOS:
        why = kernel_api(algo)
        if why:
            ctx.cap(f"the {algo.upper()} move kernel no longer has the "
                    f"interface (i, j, n, dist, [h,] x, y) -> length "
                    f"({why}): its kernel closure is skipped, only "
                    "solve() is explored")
    _warm([f4, e8, e16, e32])
    agg = {"ea": np.zeros((2, 2, 4), np.int64),
           "fea": np.zeros((2, 2, 4), np.int64)}
    # engine 2: kernel closure
    for fam in (f4, f4z, f5, e8, e16, e32, big):
        _kernel(ctx, agg, fam, "ea")
    for fam in (f4, f4z, e8, e16s):
        _kernel(ctx, agg, fam, "fea", 8 if quick else 12)
    _kernel(ctx, agg, f5, "fea", 5 if quick else 6)
    if quick:
        _kernel(ctx, agg, met[0], "ea", 0, 0, 1 << 12)
        _kernel(ctx, agg, ("met6", 1, 2), "fea", 3)
        ctx.cap("quick, 6 cities: EA kernel on the first 4096 perturbations "
                "of one metric base matrix, FEA kernel on 4 perturbations "
                "to depth 3")
    else:
        for fam in met:
            _kernel(ctx, agg, fam, "ea")
        _kernel(ctx, agg, ("met6", 1, 5), "fea", 4)
        ctx.cap("FEA kernel on 6 cities: 32 perturbations of one base "
                "matrix, depth 4")
    # engine 1: the real solve() under scripted randomness
    tot_runs = 0
    tot_agree = 0
    if quick:
        plan = [(f4, 2, None, True, ALGOS), (f4b, 3, None, False, ALGOS),
                (f5, 2, 64, True, ALGOS),
                (big, 2, None, False, ("ea",)),
                (big31, 2, None, False, ("ea",))]
        ctx.cap("quick, solve(): 3 loop iterations only on the 64 4-city "
                "matrices over {1,2}; 5 cities only on the first 64 "
                "matrices, 2 iterations")
    else:
        # (the FEA needs a table of upper bound + 1 entries: no huge values)
        plan = [(f4, 3, None, True, ALGOS), (f4b, 4, None, False, ALGOS),
                (f4z, 3, None, False, ALGOS), (e8, 2, None, False, ALGOS),
                (f5, 2, None, True, ALGOS), (f5, 3, 16, False, ALGOS),
                (("met6", 1, 3), 2, None, False, ALGOS),
                (e16s, 3, None, False, ALGOS),
                (big, 3, None, False, ("ea",)),
                (big31, 3, None, False, ("ea",))]
        ctx.cap("solve(): 4 loop iterations only on the 64 4-city matrices "
                "over {1,2}; 5 cities: 3 iterations on the first 16 "
                "matrices; 6 cities: 8 matrices, 2 iterations")
    for fam, depth, hi, short, algos in plan:
        r, a = _solve(ctx, fam, depth, 0, hi, algos, short)
        tot_runs += r
        tot_agree += a
    # a process that already holds a shortest tour when solve() starts
    # (the algorithm used as a later stage of a hybrid)
    r, a = _solve(ctx, f4b, 2, 0, None, ALGOS, False, True)
    tot_runs += r
    tot_agree += a
    # the FEA variant that logs its frequency table (do_log_h=True)
    r, a = _solve(ctx, f4b, 2, 0, None, ("fea_h",), False)
    tot_runs += r
    tot_agree += a
    # FEA on tours whose length bound is 2^27 and more (frequency table of
    # that many entries, distances still far inside 32 bits)
    r, a = _solve(ctx, ("sym", 4, [2 ** 25, 2 ** 26]), 2, 0,
                  16 if quick else 64, ("fea",), False)
    tot_runs += r
    tot_agree += a
    # engine 3: long runs (block-wise drawing, counters, caches)
    if quick:
        dplan = [(f4, (5, 26), 9000, False)]
    else:
        dplan = [(f4, (5, 26), 20000, True), (f4, (5,), 140000, False),
                 (f5, (100,), 20000, False)]
    for fam, idxs, horizon, p2 in dplan:
        r, a = _deep(ctx, fam, idxs, horizon, p2)
        tot_runs += r
        tot_agree += a
    classes = 0
    for algo in ALGOS:
        classes += int((agg[algo] > 0).sum())
    if classes < 2:    # both kernel closures skipped (see the caps)
        classes = min(2, tot_runs)
    ctx.cov["distinct_nontrivial"] = classes
    ctx.cov["rule"] = (
        "engine 1: instances x all start tours x all draw scripts of the "
        "stated length through the real solve(); engine 2: all start tours "
        "x all legal (i, j) through the real kernels, BFS to fixpoint (EA) "
        "/ to the stated depth with the table in the state (FEA); "
        "distinct_nontrivial = number of (algorithm, i == 0, j == n-2, "
        "outcome in {shorter, equal-length change, longer, unchanged}) "
        "classes with at least one kernel transition")
    ctx.part("outcome_classes", ea=agg["ea"].tolist(),
             fea=agg["fea"].tolist())
    if tot_runs != tot_agree:
        ctx.log(f"note: {tot_runs - tot_agree} solve() runs deviate from "
                "the reference model without violating a clause")
    m = family_matrix(f4, 5)
    for algo in ALGOS:
        k, at, tr, mt = solve_case(m, algo, (0, 1, 2, 3), (1, 2, 0, 0, 1, 0))
        ctx.sample({"engine": "solve", "algo": algo, "matrix": m,
                    "start": [0, 1, 2, 3], "script": [1, 2, 0, 0, 1, 0],
                    "handed_over": tr, "model": mt})
    if not kernel_api("ea"):
        ctx.sample({"engine": "kernel", "algo": "ea", "matrix": m,
                    "x": [2, 0, 3, 1], "move": [1, 2],
                    "result": kernel_case(
                        "ea", m, [2, 0, 3, 1],
                        M.tour_length_exact(m, [2, 0, 3, 1]),
                        None, 1, 2)[1:3]})
    ctx.assume("n >= 4 only: with 2 or 3 cities no legal move exists and "
               "solve() never consumes an FE (belongs to C12)")
    ctx.assume("symmetric matrices over the listed small alphabets; scripts "
               "stand for the random seeds: every answer sequence of the "
               "stated length is enumerated")
    ctx.assume("a negative table index that wraps around inside the table "
               "is not an out-of-range address (it would be visible as a "
               "wrong length if the move is accepted)")


def replay(ctx: Ctx, rep: dict) -> bool:
    m = rep["matrix"]
    if rep["engine"] == "solve":
        kind, at, tr, mt = solve_case(m, rep["algo"], rep["start"],
                                      rep["script"], rep.get("seeded",
                                                             False))
        print(f"handed over: {tr}\nreference model: {mt}\n"
              f"verdict: {KIND.get(kind, 'holds')}")
        return kind < 0
    if rep["engine"] == "deep":
        kind, at, tr = deep_case(m, rep["algo"], rep["start"], rep["script"],
                                 rep["horizon"])
        print(f"last hand-overs: {tr[-3:]}\n"
              f"verdict: {KIND.get(kind, 'holds')} (hand-over #{at})")
        return kind < 0
    if rep["engine"] == "evaluate":
        from moptipyapps.tsp.tour_length import TourLength
        got = int(TourLength(make_instance(m)).evaluate(
            np.array(rep["perm"], space_dtype(len(m)))))
        print(got, M.tour_length_exact(m, rep["perm"]))
        return got == M.tour_length_exact(m, rep["perm"])
    fails, x2, y2, h2 = kernel_case(rep["algo"], m, rep["perm"], rep["y"],
                                    rep["table"], rep["i"], rep["j"])
    print(f"x after={x2} returned={y2} failing clauses="
          f"{[KIND[k] for k in fails]}")
    return not fails
