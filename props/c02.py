"""C02: packing objectives agree with bin count, definitions and bounds."""
import numpy as np

from mc.core import Ctx, pmap
from models import packing as P
from props import pack_common as C


def objectives(inst):
    from moptipyapps.binpacking2d.objectives.bin_count import BinCount
    from moptipyapps.binpacking2d.objectives.bin_count_and_empty import (
        BinCountAndEmpty,
    )
    from moptipyapps.binpacking2d.objectives.bin_count_and_last_empty import (
        BinCountAndLastEmpty,
    )
    from moptipyapps.binpacking2d.objectives.bin_count_and_last_skyline \
        import BinCountAndLastSkyline
    from moptipyapps.binpacking2d.objectives.bin_count_and_last_small import (
        BinCountAndLastSmall,
    )
    from moptipyapps.binpacking2d.objectives.bin_count_and_lowest_skyline \
        import BinCountAndLowestSkyline
    from moptipyapps.binpacking2d.objectives.bin_count_and_small import (
        BinCountAndSmall,
    )
    return [c(inst) for c in (
        BinCount, BinCountAndLastEmpty, BinCountAndEmpty,
        BinCountAndLastSmall, BinCountAndSmall, BinCountAndLastSkyline,
        BinCountAndLowestSkyline)]


def model_values(rows, n, k, W, H):
    grid = np.zeros((k, W, H), np.int8)
    out = np.zeros(7, np.int64)
    P.objective_models(np.asarray(rows, np.int64), n, k, W, H, grid,
                       np.zeros(k, np.int64), np.zeros(k, np.int64),
                       np.zeros(k, np.int64), out)
    return [int(v) for v in out]


def huge_part(ctx):
    """
    Huge thin bins (objective values beyond 2^53), public objects.

    Packings: both decoders on a few permutations, and "every item alone in
    its bin" in two row orders; expected values from the exact break-point
    model; to_bin_count, bounds and value are checked for every objective.
    """
    from moptipyapps.binpacking2d.packing import Packing
    cnt = 0
    fams = [(10 ** 12, 1000, [[1000, 1000, 20], [1, 1, 1]]),
            (1000, 10 ** 12, [[1000, 1000, 20], [1, 1, 1]]),
            (2 ** 39, 2 ** 14, [[2 ** 14, 2 ** 14, 9], [3, 1, 2]]),
            (3 * 10 ** 9, 4 * 10 ** 6, [[10 ** 6, 4 * 10 ** 6, 5],
                                        [7, 7, 1]])]
    for (W, H, rows) in fams:
        inst = C.make_instance(W, H, rows)
        n = inst.n_items
        seq = inst.get_standard_item_sequence()
        cases = []
        for x in (seq, seq[::-1], [-v for v in seq]):
            for enc in (1, 2):
                r, nb, _ = C.public_decode(inst, enc, x)
                cases.append(r)
        for order in (seq, seq[::-1]):
            m = []
            for b, t in enumerate(order):
                m.append([t, b + 1, 0, 0, rows[t - 1][0], rows[t - 1][1]])
            cases.append(np.array(m, np.int64))
        objs = objectives(inst)
        pk = Packing(inst)
        for r in cases:
            k = int(r[:, 1].max())
            exp = P.objective_values_exact(r.tolist(), n, W, H)
            pk[:, :] = r
            pk.n_bins = k
            for o, ob in enumerate(objs):
                v = ob.evaluate(pk)
                cnt += 1
                bad = None
                if v != exp[o]:
                    bad = ("public", W, H, rows, o, int(v), exp[o],
                           r.tolist())
                elif ob.to_bin_count(v) != k:
                    bad = ("to_bin_count", W, H, rows, o, int(v),
                           ob.to_bin_count(v), k)
                elif not ob.lower_bound() <= v <= ob.upper_bound():
                    bad = ("bounds", W, H, rows, o, (int(v), int(v)),
                           (ob.lower_bound(), ob.upper_bound()), k)
                if bad:
                    report(ctx, bad)
    ctx.add("evaluations", cnt)
    ctx.add("traces_validated_against_impl", cnt)
    ctx.part("huge_thin_bins", instances=len(fams), evaluations=cnt)
    ctx.log(f"huge thin bins: {cnt} objective evaluations beyond 2^53")


def specs(ctx):
    if ctx.quick:
        return [(W, H, 1, 3) for W in range(1, 4) for H in range(1, 4)] \
            + [(4, 2, 1, 3), (2, 4, 1, 3), (4, 4, 1, 2), (3, 3, 4, 4),
               (5, 2, 1, 3)]
    return [(W, H, 1, 3) for W in range(1, 5) for H in range(1, 5)] \
        + [(W, H, 4, 4) for W in range(1, 4) for H in range(1, 4)] \
        + [(5, 3, 1, 3), (3, 5, 1, 3), (4, 2, 4, 4), (2, 4, 4, 4),
           (5, 5, 1, 2), (6, 2, 1, 3), (4, 3, 4, 4), (2, 2, 5, 5),
           (3, 4, 4, 4), (4, 4, 4, 4), (5, 4, 1, 3), (4, 5, 1, 3),
           (5, 5, 3, 3), (6, 3, 1, 3), (3, 2, 5, 5), (2, 3, 5, 5),
           (6, 6, 1, 2), (7, 2, 1, 3)]


def mid_instances(W, H, kmax):
    """
    Mid-size instances: side lengths from {1, 2, half, half+1, side-1, side}.

    Their areas exceed the range of the instance's compact storage type
    (int8 for sides up to ~60), which the small bins never do.
    """
    import itertools
    ws = sorted({v for v in (1, 2, W // 2, W // 2 + 1, W - 1, W) if v >= 1})
    hs = sorted({v for v in (1, 2, H // 2, H // 2 + 1, H - 1, H) if v >= 1})
    types = [(w, h) for w in ws for h in hs]
    for k in range(1, kmax + 1):
        for ms in itertools.combinations_with_replacement(types, k):
            rows = []
            for t in ms:
                if rows and rows[-1][:2] == list(t):
                    rows[-1][2] += 1
                else:
                    rows.append([t[0], t[1], 1])
            yield rows


def job(a):
    W, H, kmin, kmax, shard, nshards = a
    mid = kmin < 0
    C.gen_drivers()
    if mid:
        C.tree_objective_driver()
    tot = np.zeros(16, np.int64)
    ninst = 0
    bads = []
    nontrivial = 0
    for idx, rows in enumerate(mid_instances(W, H, kmax) if mid
                               else C.enum_instances(W, H, kmax, kmin)):
        if idx % nshards != shard:
            continue
        if mid:
            inst, res, mins, maxs, _, bad = C.decoder_packings(W, H, rows)
        else:
            inst, res, mins, maxs, _, bad = C.all_packings(W, H, rows,
                                                           cap=1)
        ninst += 1
        tot[:9] += res[:9]
        n = inst.n_items
        if res[2] or res[4]:
            if len(bads) < 3:
                bads.append(("value", W, H, rows, int(res[5]), int(res[6]),
                             int(res[7]), bad.tolist()))
        objs = objectives(inst)
        ks = [k for k in range(1, n + 1) if mins[0, k] >= 0]
        if len(ks) > 1:
            nontrivial += 1
        for o, ob in enumerate(objs):
            lb, ub = ob.lower_bound(), ob.upper_bound()
            for k in ks:
                lo, hi = int(mins[o, k]), int(maxs[o, k])
                if lo < lb or hi > ub:
                    bads.append(("bounds", W, H, rows, o, (lo, hi),
                                 (lb, ub), k))
                for v in (lo, hi):
                    if ob.to_bin_count(v) != k:
                        bads.append(("to_bin_count", W, H, rows, o, v,
                                     ob.to_bin_count(v), k))
            for i, k in enumerate(ks):
                for k2 in ks[i + 1:]:
                    if not maxs[o, k] < mins[o, k2]:
                        bads.append(("dominance", W, H, rows, o,
                                     (k, int(maxs[o, k])),
                                     (k2, int(mins[o, k2])), 0))
        if inst.lower_bound_bins > ks[0]:
            bads.append(("lower_bound_bins", W, H, rows, 0,
                         int(inst.lower_bound_bins), ks[0], 0))
        if len(bads) > 20:
            break
    return ninst, tot, bads, nontrivial


def public_job(a):
    """Public objective objects on every stored packing + decoder outputs."""
    from moptipyapps.binpacking2d.packing import Packing
    W, H, kmin, kmax, shard, nshards = a
    C.gen_drivers()
    cnt = 0
    bads = []
    distinct = set()
    for idx, rows in enumerate(C.enum_instances(W, H, kmax, kmin)):
        if idx % nshards != shard:
            continue
        inst, res, mins, maxs, store, _ = C.all_packings(W, H, rows, 60000)
        n = inst.n_items
        objs = objectives(inst)  # reused over the whole enumeration
        pk = Packing(inst)
        cases = [np.array(s, np.int64) for s in store]
        for x in C.signed_perms(rows):
            for enc in (1, 2):
                r, nb, _ = C.public_decode(inst, enc, x)
                cases.append(r)
        for ci, r in enumerate(cases):
            k = int(r[:, 1].max())
            exp = model_values(r, n, k, W, H)
            pk[:, :] = r
            pk.n_bins = k
            fresh = objectives(inst) if ci % 7 == 0 else None
            for o, ob in enumerate(objs):
                v = ob.evaluate(pk)
                cnt += 1
                if fresh is not None and v == exp[o]:
                    v = fresh[o].evaluate(pk)  # a fresh object must agree
                if v != exp[o] and len(bads) < 6:
                    bads.append(("public", W, H, rows, o, int(v), exp[o],
                                 r.tolist()))
                elif ob.to_bin_count(v) != k and len(bads) < 6:
                    bads.append(("to_bin_count", W, H, rows, o, int(v),
                                 ob.to_bin_count(v), k))
                elif not ob.lower_bound() <= v <= ob.upper_bound() \
                        and len(bads) < 6:
                    bads.append(("bounds", W, H, rows, o, (int(v), int(v)),
                                 (ob.lower_bound(), ob.upper_bound()), k))
                distinct.add((o, int(v)))
        if res[9]:
            bads.append(("cap", W, H, rows, 0, 0, 0, 0))
    return cnt, bads, len(distinct)


def report(ctx, b):
    kind, W, H, rows = b[0], b[1], b[2], b[3]
    o = b[4]
    name = C.OBJ_NAMES[o]
    if kind in ("value", "public"):
        ctx.violation(
            f"{name}|value differs from definition",
            f"bin {W}x{H} items={rows} packing={b[7]}: {name} returns "
            f"{b[5]} but the documented value is {b[6]} ({kind} path)",
            {"W": W, "H": H, "rows": rows, "packing": b[7], "objective": o})
    elif kind == "bounds":
        ctx.violation(
            f"{name}|outside declared bounds",
            f"bin {W}x{H} items={rows}: with {b[7]} bins values range over "
            f"{b[5]} but bounds are {b[6]}",
            {"W": W, "H": H, "rows": rows, "objective": o})
    elif kind == "to_bin_count":
        ctx.violation(
            f"{name}|to_bin_count wrong",
            f"bin {W}x{H} items={rows}: value {b[5]} of a {b[7]}-bin "
            f"packing converts to {b[6]} bins",
            {"W": W, "H": H, "rows": rows, "objective": o})
    elif kind == "dominance":
        ctx.violation(
            f"{name}|fewer bins not strictly better",
            f"bin {W}x{H} items={rows}: a packing with (bins, value)={b[5]}"
            f" vs one with {b[6]}",
            {"W": W, "H": H, "rows": rows, "objective": o})
    elif kind == "lower_bound_bins":
        ctx.violation(
            "Instance|lower bound exceeds a feasible packing",
            f"bin {W}x{H} items={rows}: lower_bound_bins={b[5]} but a "
            f"feasible packing with {b[6]} bins exists",
            {"W": W, "H": H, "rows": rows})
    else:
        ctx.violation("harness|cap", f"store cap hit for {W}x{H} {rows}",
                      {"W": W, "H": H, "rows": rows})


def run(ctx: Ctx) -> None:
    C.gen_drivers()
    C.drivers()
    jobs = []
    for (W, H, kmin, kmax) in specs(ctx):
        ns = 1 if len(C.item_types(W, H)) ** kmax < 3000 else \
            min(64, ctx.jobs * 2)
        jobs += [(W, H, kmin, kmax, s, ns) for s in range(ns)]
    jobs.sort(key=lambda j: -(len(C.item_types(j[0], j[1])) ** j[3]
                              * (j[0] * j[1]) ** j[3]))
    out = pmap(job, jobs, ctx.jobs)
    tot = np.zeros(16, np.int64)
    ninst = 0
    nontriv = 0
    for (ni, t, bads, nt) in out:
        ninst += ni
        tot += t
        nontriv += nt
        for b in bads:
            report(ctx, b)
    # mid-size bins: decoder outputs only, areas beyond the storage type
    mids = [(12, 11, 2), (11, 12, 2), (20, 20, 3), (16, 5, 2), (100, 3, 2)]
    if not ctx.quick:
        mids = [(12, 11, 3), (11, 12, 3), (20, 20, 3), (16, 5, 3),
                (100, 3, 3), (30, 30, 3), (60, 60, 3), (13, 10, 3),
                (127, 2, 3), (50, 200, 3), (20, 20, 4)]
    mj = [(W, H, -1, km, s_, ctx.jobs) for (W, H, km) in mids
          for s_ in range(ctx.jobs)]
    mout = pmap(job, mj, ctx.jobs)
    mi = 0
    mt = np.zeros(16, np.int64)
    for (ni, t, bads, nt) in mout:
        mi += ni
        mt += t
        nontriv += nt
        for b in bads:
            report(ctx, b)
    ctx.add("states", int(mt[0]))
    ctx.add("evaluations", int(mt[1]))
    ctx.add("traces_validated_against_impl", int(mt[1]))
    ctx.part("mid_size_bins_decoder_outputs", bins=[list(m) for m in mids],
             instances=mi, decodings=int(mt[0]),
             objective_evaluations=int(mt[1]))
    ctx.log(f"mid-size bins: {mi} instances, {int(mt[0])} decodings, "
            f"{int(mt[1])} objective evaluations")
    huge_part(ctx)
    ctx.add("states", int(tot[0]))
    ctx.add("transitions", int(tot[8]))
    ctx.add("evaluations", int(tot[1]))
    ctx.add("traces_validated_against_impl", int(tot[1]))
    ctx.part("all_feasible_packings", instances=ninst,
             packings=int(tot[0]), placement_attempts=int(tot[8]),
             objective_evaluations=int(tot[1]),
             instances_with_several_bin_counts=nontriv,
             specs=[list(s) for s in specs(ctx)])
    ctx.log(f"generator: {ninst} instances, {int(tot[0])} feasible "
            f"packings, {int(tot[1])} objective evaluations (incl. row "
            f"orders), value mismatches={int(tot[2]) + int(tot[4])}")
    pub_specs = [(3, 2, 1, 2), (2, 3, 1, 3), (1, 3, 1, 3), (4, 1, 1, 3)]
    if not ctx.quick:
        pub_specs += [(3, 3, 1, 3), (4, 2, 1, 3)]
    pj = []
    for (W, H, kmin, kmax) in pub_specs:
        pj += [(W, H, kmin, kmax, s, ctx.jobs) for s in range(ctx.jobs)]
    out = pmap(public_job, pj, ctx.jobs)
    pc = 0
    dv = 0
    for (c, bads, d) in out:
        pc += c
        dv += d
        for b in bads:
            report(ctx, b)
    ctx.add("evaluations", pc)
    ctx.add("traces_validated_against_impl", pc)
    ctx.part("public_objective_objects", evaluations=pc,
             distinct_objective_values=dv,
             specs=[list(s) for s in pub_specs])
    ctx.log(f"public objects (reused + fresh), generator and decoder "
            f"outputs: {pc} evaluations")
    ctx.cov["distinct_nontrivial"] = nontriv
    ctx.cov["rule"] = (
        "explicit-state placement search yields every feasible packing of "
        "every instance within the specs (canonical order among identical "
        "items), each under all row rotations + reversal; non-trivial = "
        "instances that have feasible packings with several different bin "
        "counts (dominance clause exercised)")
    inst, res, mins, maxs, store, _ = C.all_packings(3, 2, [[2, 1, 1],
                                                            [1, 1, 2]], 500)
    r = np.array(store[len(store) // 2], np.int64)
    ctx.sample({"bin": [3, 2], "items": [[2, 1, 1], [1, 1, 2]],
                "packing": r.tolist(),
                "values": model_values(r, 3, int(r[:, 1].max()), 3, 2)})
    ctx.assume("bins up to 4x4 / 5x3 / 6x2 and up to 4 (5 on 2x2) items")


def replay(ctx: Ctx, rep: dict) -> bool:
    from moptipyapps.binpacking2d.packing import Packing
    W, H, rows = rep["W"], rep["H"], rep["rows"]
    if "packing" not in rep:
        r = job((W, H, sum(x[2] for x in rows), sum(x[2] for x in rows),
                 0, 1))
        mine = [b for b in r[2] if b[3] == rows]
        print(mine)
        return not mine
    inst = C.make_instance(W, H, rows)
    pk = Packing(inst)
    pk[:, :] = np.array(rep["packing"])
    k = int(pk[:, 1].max())
    pk.n_bins = k
    exp = model_values(rep["packing"], inst.n_items, k, W, H)
    got = [int(o.evaluate(pk)) for o in objectives(inst)]
    print("got", got, "expected", exp)
    return got == exp
