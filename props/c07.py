"""C07: TTP error count is zero exactly for feasible schedules."""
import itertools

import numpy as np

from mc.core import Ctx, pmap
from models import ttp as M
from props import ttp_common as T

KIND = {1: "value differs from documented rule count",
        2: "errors == 0 <=> feasible is broken",
        3: "value outside [0, upper bound]"}


def settings_alphabet(ctx: Ctx, big: bool):
    """(hmin, hmax, amin, amax, smin, smax) rows."""
    shipped = [(1, 3, 1, 3, 1, 6), (1, 3, 1, 3, 1, 2), (1, 3, 1, 3, 0, 6)]
    if big:
        st = [(a, b) for a in (1, 2, 3) for b in (1, 2, 3) if a <= b]
        sp = [(a, b) for a in (0, 1, 2, 3, 6) for b in (0, 1, 2, 3, 6)
              if a <= b]
        return [(h[0], h[1], a[0], a[1], s[0], s[1])
                for h in st for a in st for s in sp]
    syn = [(1, 1, 1, 1, 0, 0), (1, 2, 1, 3, 0, 6), (2, 3, 1, 3, 1, 6),
           (1, 3, 2, 3, 1, 6), (2, 2, 2, 2, 0, 6), (1, 1, 1, 3, 2, 6),
           (1, 3, 1, 1, 0, 3), (2, 3, 2, 3, 2, 3), (3, 3, 1, 3, 0, 6),
           (1, 3, 3, 3, 1, 3), (1, 2, 1, 2, 1, 1), (1, 2, 2, 3, 3, 6),
           (2, 3, 1, 2, 0, 1), (1, 1, 2, 2, 1, 2), (1, 3, 1, 3, 6, 6),
           (1, 3, 1, 3, 0, 0), (1, 3, 1, 3, 3, 3), (1, 3, 1, 3, 2, 2),
           (2, 2, 1, 3, 0, 2), (1, 3, 2, 2, 2, 6), (3, 3, 3, 3, 0, 6),
           (1, 2, 1, 2, 0, 6), (2, 3, 2, 3, 0, 6), (1, 1, 1, 1, 1, 6)]
    return shipped + syn


_UB = {}


def declared_ub(n, rounds, st):
    """
    The upper bound DECLARED by the real objective for this setting.

    (The statement speaks of "the declared upper bound"; the documented
    formula (4D-1)n-1 is only used if the setting is not a valid instance.)
    """
    key = (n, rounds, tuple(int(v) for v in st))
    if key not in _UB:
        from moptipyapps.ttp.errors import Errors
        try:
            _UB[key] = int(Errors(T.make_instance(n, rounds, st))
                           .upper_bound())
        except ValueError:
            days = (n - 1) * rounds
            _UB[key] = (4 * days - 1) * n - 1
    return _UB[key]


def _job(a):
    (n, rounds, byes, full_rows, start, stop, settings, corrupt) = a
    d = T.drivers()
    if full_rows:
        cfg = np.array(list(itertools.product(range(-n, n + 1), repeat=n)),
                       np.int64)
    else:
        cfg = M.day_config_array(n, byes)
    days = (n - 1) * rounds
    ubs = np.array([declared_ub(n, rounds, st) for st in settings],
                   np.int64)
    hist = np.zeros(int(ubs.max()) + 1, np.int64)
    res = np.zeros(16, np.int64)
    badrec = np.zeros((5, 8), np.int64)
    d["drive_errors"](cfg, days, start, stop,
                      np.array(settings, np.int64), rounds, ubs,
                      1 if corrupt else 0, hist, res, 8, badrec)
    return res, hist, badrec


def _explore(ctx: Ctx, name, n, rounds, byes, full_rows, settings, corrupt,
             lo=0, hi=None):
    if full_rows:
        k = (2 * n + 1) ** n
    else:
        k = len(M.day_configs(n, byes))
    days = (n - 1) * rounds
    total = k ** days
    if hi is None:
        hi = total
    span = hi - lo
    nchunks = min(max(1, span // 64), ctx.jobs * 4)
    bounds = [lo + span * i // nchunks for i in range(nchunks + 1)]
    jobs = [(n, rounds, byes, full_rows, bounds[i], bounds[i + 1],
             settings, corrupt) for i in range(nchunks)
            if bounds[i] < bounds[i + 1]]
    out = pmap(_job, jobs, ctx.jobs)
    ub = max(declared_ub(n, rounds, st) for st in settings)
    hist = np.zeros(ub + 1, np.int64)
    evals = 0
    feas = 0
    zero = 0
    dmg = 0
    for res, h, _ in out:
        hist[:len(h)] += h[:len(hist)]
        evals += int(res[0])
        feas += int(res[1])
        zero += int(res[9])
        dmg += int(res[10])
    distinct = int((hist > 0).sum())
    ctx.add("evaluations", evals)
    ctx.add("traces_validated_against_impl", evals)
    ctx.add("states", span)
    ctx.add("transitions", evals)
    ctx.part(name, plans=span, of_total=total, settings=len(settings),
             executions=evals, feasible_plan_settings=feas,
             zero_error_plan_settings=zero,
             distinct_error_values=distinct,
             single_cell_corruptions=bool(corrupt))
    ctx.log(f"{name}: plans={span}/{total} settings={len(settings)} "
            f"exec={evals} feasible={feas} distinct_values={distinct}")
    if full_rows:
        cfg = np.array(list(itertools.product(range(-n, n + 1), repeat=n)),
                       np.int64)
    else:
        cfg = M.day_config_array(n, byes)
    if dmg:
        ctx.part(name, guard_cells_overwritten=dmg)
    for slot in (1, 2, 3, 4):
        for _, _, br in out:
            b = br[slot]
            if b[0] >= 0:
                y = T.plan_from_index(int(b[0]), cfg, days)
                cell, val = int(b[3]), int(b[4])
                if cell >= 0:
                    y[cell // n, cell % n] = val
                st = [int(v) for v in settings[int(b[2])]]
                report(ctx, y, rounds, st, int(b[1]), int(b[5]), int(b[6]),
                       "kernel")
                break
    return distinct


def classify(y, rounds, st, kind):
    """Signature: the failing input class."""
    n = y.shape[1]
    if kind == 3:
        if st[4] >= 3 or st[0] >= 3 or st[2] >= 3:
            return "upper_bound|exceeded|a minimum (separation or streak) >= 3"
        return f"upper_bound|exceeded|setting={st}"
    self_play = [t for t in range(n)
                 if any(abs(int(v)) == t + 1 for v in y[:, t])]
    if self_play:
        return f"count_errors|self-play|team={'n' if n - 1 in self_play else 'other'}"  # noqa
    if kind == 2 and M.consistent(y) and not (y == 0).any():
        # consistent & complete plan with 0 errors but infeasible (or v.v.)
        last_short = False
        for t in range(n):
            run = 1
            d = y.shape[0] - 1
            while d > 0 and (y[d, t] > 0) == (y[d - 1, t] > 0):
                run += 1
                d -= 1
            lo = st[0] if y[-1, t] > 0 else st[2]
            if run < lo:
                last_short = True
        if last_short:
            return "count_errors|open-run-on-last-day-below-minimum"
    if kind == 1 and M.consistent(y):
        for t in range(n):
            run = 1
            d = y.shape[0] - 1
            while d > 0 and y[d, t] != 0 and y[d - 1, t] != 0 \
                    and (y[d, t] > 0) == (y[d - 1, t] > 0):
                run += 1
                d -= 1
            if y[-1, t] != 0:
                lo = st[0] if y[-1, t] > 0 else st[2]
                if run < lo:
                    return "count_errors|open-run-on-last-day-below-minimum"
    return f"count_errors|{KIND[kind]}"


def public_eval(y, rounds, st):
    from moptipyapps.ttp.errors import Errors
    n = y.shape[1]
    inst = T.make_instance(n, rounds, st)
    return int(Errors(inst).evaluate(T.to_game_plan(inst, y)))


def report(ctx, y, rounds, st, kind, got, exp, path):
    n = y.shape[1]
    try:
        again = public_eval(y, rounds, st)
    except Exception as e:  # noqa
        again = f"{type(e).__name__}: {e}"
    fe = bool(M.feasible(y, rounds, *st))
    text = (f"{KIND[kind]}: n={n} rounds={rounds} setting(hmin,hmax,amin,"
            f"amax,smin,smax)={st} plan={y.tolist()} {path} value={got} "
            f"public-API value={again} feasible(model)={fe} "
            f"expected={exp}")
    ctx.violation(classify(y, rounds, st, kind), text,
                  {"plan": y.tolist(), "rounds": rounds, "setting": st,
                   "kind": kind, "observed": got, "expected": exp,
                   "pytest": PYTEST.format(plan=y.tolist(), rounds=rounds,
                                           st=st, n=n)})


PYTEST = '''
def test_c07_replay():
    import numpy as np
    from moptipyapps.ttp.instance import Instance
    from moptipyapps.ttp.game_plan import GamePlan
    from moptipyapps.ttp.errors import Errors
    n = {n}
    m = np.array([[0 if i == j else 1 + abs(i - j) for j in range(n)]
                  for i in range(n)])
    inst = Instance("v", m, [f"T{{i}}" for i in range(n)], {rounds}, *{st})
    gp = GamePlan(inst)
    gp[:, :] = np.array({plan})
    e = Errors(inst).evaluate(gp)
    # feasible <=> e == 0; value == documented rule count (see replay file)
    print(e)
'''


def check_one(y, rounds, st):
    """Return (kind, got, exp) through the public API; kind 0 = fine."""
    n = y.shape[1]
    ub = declared_ub(n, rounds, st)
    got = public_eval(y, rounds, st)
    fe = bool(M.feasible(y, rounds, *st))
    if (got == 0) != fe:
        return 2, got, 0 if fe else 1
    if not 0 <= got <= ub:
        return 3, got, ub
    if M.consistent(y):
        exp = int(M.rule_count(y, rounds, *st))
        if exp != got:
            return 1, got, exp
    return 0, got, got


def _public_job(a):
    """Public-API path over a plan range with one objective object reused."""
    from moptipyapps.ttp.errors import Errors
    n, rounds, byes, full_rows, start, stop, st = a
    if full_rows:
        cfg = np.array(list(itertools.product(range(-n, n + 1), repeat=n)),
                       np.int64)
    else:
        cfg = M.day_config_array(n, byes)
    days = (n - 1) * rounds
    inst = T.make_instance(n, rounds, st)
    obj = Errors(inst)
    ub = obj.upper_bound()
    if obj.lower_bound() > 0 or not isinstance(ub, int):
        return ("bounds", obj.lower_bound(), obj.upper_bound(), ub)
    gp = T.to_game_plan(inst, np.zeros((days, n), int))
    if gp.dtype != inst.game_plan_dtype:
        return ("dtype", str(gp.dtype))
    vals = set()
    cnt = 0
    for idx in range(start, stop):
        y = T.plan_from_index(idx, cfg, days)
        gp[:, :] = y
        got = obj.evaluate(gp)
        cnt += 1
        vals.add(int(got))
        fe = bool(M.feasible(y, rounds, *st))
        bad = 0
        exp = -1
        if (got == 0) != fe:
            bad, exp = 2, (0 if fe else 1)
        elif not 0 <= got <= ub:
            bad, exp = 3, ub
        elif M.consistent(y):
            exp = int(M.rule_count(y, rounds, *st))
            if exp != got:
                bad = 1
        if bad:
            return ("bad", idx, bad, int(got), exp, cnt, sorted(vals))
    return ("ok", cnt, sorted(vals))


def _public(ctx, name, n, rounds, byes, full_rows, sts, lo=0, hi=None):
    if full_rows:
        k = (2 * n + 1) ** n
        cfg = np.array(list(itertools.product(range(-n, n + 1), repeat=n)),
                       np.int64)
    else:
        cfg = M.day_config_array(n, byes)
        k = len(cfg)
    days = (n - 1) * rounds
    total = k ** days
    if hi is None:
        hi = total
    span = hi - lo
    nch = max(1, min(ctx.jobs, span // 2000))
    jobs = []
    for st in sts:
        b = [lo + span * i // nch for i in range(nch + 1)]
        jobs += [(n, rounds, byes, full_rows, b[i], b[i + 1], st)
                 for i in range(nch)]
    out = pmap(_public_job, jobs, ctx.jobs)
    cnt = 0
    vals = set()
    for j, r in zip(jobs, out):
        if r[0] == "ok":
            cnt += r[1]
            vals.update(r[2])
        elif r[0] == "bad":
            y = T.plan_from_index(r[1], cfg, days)
            report(ctx, y, rounds, list(j[6]), r[2], r[3], r[4],
                   "public Errors.evaluate (object reused)")
            cnt += r[5]
        else:
            ctx.violation(f"Errors|{r[0]}", f"Errors objective {r}",
                          {"detail": list(r), "setting": list(j[6]),
                           "n": n, "rounds": rounds})
    ctx.add("evaluations", cnt)
    ctx.add("traces_validated_against_impl", cnt)
    ctx.add("transitions", cnt)
    ctx.part(name, plans=span, settings=len(sts), executions=cnt,
             distinct_error_values=len(vals))
    ctx.log(f"{name}: exec={cnt} distinct_values={len(vals)}")
    return len(vals)


def _long_job(a):
    """
    Long 4-team tournaments (storage edge of the objective's scratch arrays).

    The temporary arrays of the Errors objective store day indices; their
    type is chosen from the number of days, whose int8 edge is 127/128.
    Plans: a feasible 6-day block repeated, with the 3-day half block at one
    of five positions replaced by every one of the 12^3 consistent half
    blocks (deviation bound 1); all plans are consistent, so the value must
    equal the documented rule count.
    """
    from moptipyapps.ttp.errors import Errors
    rounds, st, pos_i = a
    n = 4
    days = 3 * rounds
    cfg = M.day_config_array(4)
    base = None
    for idx in range(12 ** 6):
        y = T.plan_from_index(idx, cfg, 6)
        if M.feasible(y, 2, 1, 3, 1, 3, 1, 6):
            base = y
            break
    full = np.concatenate([base] * (rounds // 2 + 1))[:days]
    inst = T.make_instance(n, rounds, st)
    obj = Errors(inst)
    gp = T.to_game_plan(inst, full)
    ub = obj.upper_bound()
    halves = days // 3
    pos = [0, 1, halves // 2, halves - 2, halves - 1][pos_i]
    cnt = 0
    vals = set()
    for h in range(12 ** 3):
        y = full.copy()
        y[3 * pos:3 * pos + 3] = T.plan_from_index(h, cfg, 3)
        gp[:, :] = y
        got = int(obj.evaluate(gp))
        cnt += 1
        vals.add(got)
        fe = bool(M.feasible(y, rounds, *st))
        exp = int(M.rule_count(y, rounds, *st))
        bad = 0
        if (got == 0) != fe:
            bad = 2
        elif got != exp:
            bad = 1
        elif not 0 <= got <= ub:
            bad = 3
        if bad:
            return ("bad", y.tolist(), bad, got, exp if bad != 3 else ub,
                    cnt, len(vals))
    return ("ok", cnt, len(vals))


def _long(ctx):
    jobs = [(r, st, p) for r in ((42, 43, 44) if ctx.quick
                                 else (41, 42, 43, 44, 50, 100))
            for st in ((1, 3, 1, 3, 1, 6), (1, 3, 1, 3, 2, 125))
            for p in range(5)]
    out = pmap(_long_job, jobs, ctx.jobs)
    cnt = 0
    dv = 0
    for j, r in zip(jobs, out):
        if r[0] == "ok":
            cnt += r[1]
            dv = max(dv, r[2])
        else:
            y = np.array(r[1])
            st = list(j[1])
            sig = ("Errors|long tournament|" + KIND[r[2]])
            ctx.violation(
                sig, f"{KIND[r[2]]}: n=4 rounds={j[0]} ({3 * j[0]} days) "
                f"setting={st}: 6-day block repeated with one half block "
                f"replaced (rows {3 * [0, 1, j[0] // 2, j[0] - 2, j[0] - 1][j[2]]}"
                f"..): public Errors.evaluate={r[3]} expected={r[4]}",
                {"plan": y.tolist(), "rounds": j[0], "setting": st,
                 "kind": r[2], "observed": r[3], "expected": r[4]})
            cnt += r[5]
    ctx.add("evaluations", cnt)
    ctx.add("traces_validated_against_impl", cnt)
    ctx.add("transitions", cnt)
    ctx.part("public_long_tournaments_n4", plans=cnt,
             rounds=sorted({j[0] for j in jobs}),
             max_distinct_error_values=dv)
    ctx.log(f"long tournaments (126..132+ days): exec={cnt} "
            f"distinct_values<={dv}")
    return dv


def run(ctx: Ctx) -> None:
    T.drivers()
    quick = ctx.quick
    sA = settings_alphabet(ctx, big=not quick)
    sQ = settings_alphabet(ctx, big=False)
    distinct = 0
    # (b) n = 2: every plan of the game plan space, rounds 1..4
    for rounds in (1, 2, 3, 4):
        sts = [s for s in (sA if rounds <= 3 else sQ)
               if max(s) <= rounds * 2 - 1]
        if not sts:
            sts = [(1, 1, 1, 1, 0, 0)]
        distinct += _explore(ctx, f"n2_r{rounds}_all_plans", 2, rounds,
                             False, True, sts, False)
    # (a) n = 4 single round robin: all consistent plans, with byes, and all
    # single-cell corruptions
    distinct += _explore(ctx, "n4_r1_consistent+corruptions", 4, 1, False,
                         False, [s for s in sA if max(s) <= 3], True)
    distinct += _explore(ctx, "n4_r1_with_byes+corruptions", 4, 1, True,
                         False, [s for s in sQ if max(s) <= 3], True)
    # (a) n = 4 double round robin: all 12^6 consistent plans
    distinct += _explore(ctx, "n4_r2_consistent", 4, 2, False, False, sA,
                         False)
    # (c) single-cell corruptions of the double round robin plans
    tot = 12 ** 6
    if quick:
        k = ctx.seed % 12
        lo, hi = k * tot // 12, (k + 1) * tot // 12
        # which twelfth is corrupted is seed-dependent only in *which* day-1
        # row is fixed; all 12 slices are covered by thorough
        lo, hi = 0, tot // 12
        ctx.cap("single-cell corruptions of 4-team double round-robin plans:"
                " only plans whose first day is the first day row (1/12)")
    else:
        lo, hi = 0, tot
    distinct += _explore(ctx, "n4_r2_single_cell_corruptions", 4, 2, False,
                         False, [(1, 3, 1, 3, 1, 6)], True, lo, hi)
    if not quick:
        distinct += _explore(ctx, "n4_r2_with_byes", 4, 2, True, False,
                             [(1, 3, 1, 3, 1, 6), (2, 3, 1, 2, 0, 2)],
                             False)
        distinct += _explore(ctx, "n4_r3_consistent", 4, 3, False, False,
                             [(1, 3, 1, 3, 1, 6)], False)
    # six teams, single round robin: all completions of the first day row(s)
    six = [(1, 3, 1, 3, 0, 5), (1, 2, 1, 2, 0, 5), (2, 3, 1, 3, 0, 5)]
    if quick:
        cfg6 = M.day_configs(6)
        pairs0 = {frozenset((t, abs(v) - 1)) for t, v in enumerate(cfg6[0])}
        b = next(i for i, r in enumerate(cfg6) if not pairs0 & {
            frozenset((t, abs(v) - 1)) for t, v in enumerate(r)}
            and sum(1 for t in range(6)
                    if (r[t] > 0) != (cfg6[0][t] > 0)) == 6)
        distinct += _explore(ctx, "n6_r1_first_two_days_fixed", 6, 1, False,
                             False, six, False, b * 120 ** 3,
                             (b + 1) * 120 ** 3)
        ctx.cap("6 teams: only the 120^3 single round-robin plans whose "
                "first two days are the first day row")
    else:
        distinct += _explore(ctx, "n6_r1_first_day_fixed", 6, 1, False,
                             False, six[:2], False, 0, 120 ** 4)
        ctx.cap("6 teams: only the 120^4 single round-robin plans whose "
                "first day is the first day row")
    # public API path with one reused objective object
    pub = [(1, 3, 1, 3, 1, 6), (2, 3, 1, 2, 0, 1), (1, 2, 2, 3, 1, 2)]
    pub3 = [(1, 3, 1, 3, 1, 3), (2, 3, 1, 2, 0, 1), (1, 2, 2, 3, 1, 2)]
    distinct += _public(ctx, "public_n2_r1", 2, 1, False, True,
                        [(1, 1, 1, 1, 0, 0), (1, 1, 1, 1, 0, 1)])
    distinct += _public(ctx, "public_n2_r2", 2, 2, False, True, pub3)
    distinct += _public(ctx, "public_n4_r1", 4, 1, False, False, pub3)
    distinct += _public(ctx, "public_n4_r1_byes", 4, 1, True, False, pub3[:2])
    if quick:
        distinct += _public(ctx, "public_n4_r2_slice", 4, 2, False, False,
                            pub[:1], 0, 12 ** 5)
    else:
        distinct += _public(ctx, "public_n4_r2", 4, 2, False, False, pub)
    distinct += _long(ctx)
    # shipped instances: settings as shipped, public API
    from moptipyapps.ttp.instance import Instance
    shipped = set()
    for name in Instance.list_resources():
        inst = Instance.from_resource(name)
        shipped.add((inst.n_cities, inst.rounds, inst.home_streak_min,
                     inst.home_streak_max, inst.away_streak_min,
                     inst.away_streak_max, inst.separation_min,
                     inst.separation_max))
    ctx.part("shipped_settings", distinct=sorted(shipped))
    four = sorted({s[2:] for s in shipped if s[0] == 4 and s[1] == 2})
    for s in four:
        if tuple(s) not in {tuple(x) for x in sA}:
            distinct += _explore(ctx, f"n4_r2_shipped_setting_{s}", 4, 2,
                                 False, False, [s], False)
    ctx.cov["distinct_nontrivial"] = distinct
    ctx.cov["rule"] = (
        "plans enumerated completely per part (all consistent day rows ^ "
        "days; all rows for n=2); non-trivial/distinct = number of distinct "
        "error values observed per part, summed")
    y = T.plan_from_index(123456, M.day_config_array(4), 6)
    ctx.sample({"plan": y.tolist(), "setting": [1, 3, 1, 3, 1, 6],
                "errors": public_eval(y, 2, [1, 3, 1, 3, 1, 6]),
                "model": int(M.rule_count(y, 2, 1, 3, 1, 3, 1, 6))})
    y = np.array([[2, -1], [2, -1], [-2, 1], [0, 2]])
    ctx.sample({"plan": y.tolist(), "setting": [1, 3, 1, 3, 0, 3],
                "errors": public_eval(y, 4, [1, 3, 1, 3, 0, 3]),
                "feasible": bool(M.feasible(y, 4, 1, 3, 1, 3, 0, 3))})
    ctx.assume("team counts 2 and 4 (6: a slice); rounds <= 4 (n=2), <= 2 complete "
               "and a slice of 3 (n=4); streak limits <= 3, separation "
               "limits from {0,1,2,3,6}")


def replay(ctx: Ctx, rep: dict) -> bool:
    y = np.array(rep["plan"])
    kind, got, exp = check_one(y, rep["rounds"], rep["setting"])
    print(f"plan={y.tolist()} setting={rep['setting']} observed={got} "
          f"expected={exp} kind={KIND.get(kind, 'ok')}")
    return kind == 0
