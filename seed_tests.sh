#!/bin/bash
# usage: seed_tests.sh <seed dir> <pytest args...> ; runs the repository tests in a scratch worktree with the patch applied
D=$(realpath $1); shift
W=/var/tmp/stw_$$
git -C /repo worktree add --detach -f $W HEAD >/dev/null 2>&1
trap "git -C /repo worktree remove --force $W >/dev/null 2>&1; rm -rf $W /var/tmp/stnb_$$" EXIT
git -C $W apply $D/patch.diff || { echo "PATCH DOES NOT APPLY" > $D/tests_confirm.log; exit 3; }
(cd $W && PYTHONPATH=$W NUMBA_CACHE_DIR=/var/tmp/stnb_$$ nice -n 5 /venv/bin/python -m pytest -q -p no:cacheprovider --timeout=900 "$@" 2>&1 | tail -15) > $D/tests_confirm.log
echo "args: $@" >> $D/tests_confirm.log
tail -3 $D/tests_confirm.log
