#!/bin/bash
# re-run every stored seeded change against its property's quick check; prints CAUGHT/MISSED per change
cd /verif
for d in seeded/*/; do
  n=$(basename $d); p=$(python3 -c "import json;print(json.load(open('$d/meta.json'))['property'])")
  out=$(./seed_eval.sh $d $p 2>&1)
  if echo "$out" | grep -q "VIOLATION property=$p"; then r=CAUGHT; else r=MISSED; fi
  dm=$(echo "$out" | grep -c "^exit=1")
  echo "$n $p $r demo_fail_with_change=$dm $(echo "$out" | grep -E "tier=" | sed 's/.*violations=/violations=/' | cut -c1-40)"
done
