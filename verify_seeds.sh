#!/bin/bash
# re-run every stored seeded change against its property's quick check; prints CAUGHT/MISSED per change
# usage: verify_seeds.sh [shard nshards]   (e.g. two shards in parallel with VERIF_JOBS=8 each)
cd /verif
S=${1:-0}; N=${2:-1}; i=0
for d in seeded/*/; do
  i=$((i+1)); [ $((i % N)) -eq $S ] || continue
  n=$(basename $d); p=$(python3 -c "import json;print(json.load(open('$d/meta.json'))['property'])")
  out=$(./seed_eval.sh $d $p 2>&1)
  if echo "$out" | grep -q "VIOLATION property=$p"; then r=CAUGHT; else r=MISSED; fi
  dm=$(echo "$out" | grep -c "^exit=1")
  echo "$n $p $r demo_fail_with_change=$dm $(echo "$out" | grep -E "tier=" | sed 's/.*violations=/violations=/' | cut -c1-40)"
done
