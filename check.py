#!/venv/bin/python
"""CLI: check.py <ID> --tier quick|thorough [--replay file]."""
import os
import sys

sys.path.insert(0, os.path.dirname(os.path.abspath(__file__)))
from mc.core import main  # noqa: E402

if __name__ == "__main__":
    sys.exit(main(sys.argv[1:]))
