#!/bin/bash
# usage: seed_eval.sh <dir with patch.diff and demo.py> <CHECK IDs...>
# verifies the demo (FAIL with change, PASS without) and runs the checks against a scratch worktree
D=$(realpath $1); shift
W=/var/tmp/sw_$$
git -C /repo worktree add --detach -f $W HEAD >/dev/null 2>&1
trap "git -C /repo worktree remove --force $W >/dev/null 2>&1; rm -rf $W /var/tmp/sev_$$ /var/tmp/snb_$$" EXIT
echo "demo on unchanged tree:"; (cd $W && PYTHONPATH=$W NUMBA_CACHE_DIR=/var/tmp/snb_$$/a timeout 900 /venv/bin/python $D/demo.py 2>&1 | tail -2; echo "exit=${PIPESTATUS[0]}")
git -C $W apply $D/patch.diff || { echo "PATCH DOES NOT APPLY"; exit 3; }
echo "demo with change:"; (cd $W && PYTHONPATH=$W NUMBA_CACHE_DIR=/var/tmp/snb_$$/b timeout 900 /venv/bin/python $D/demo.py 2>&1 | tail -2; echo "exit=${PIPESTATUS[0]}")
for p in "$@"; do
  VERIF_REPO_ROOT=$W VERIF_EVIDENCE_DIR=/var/tmp/sev_$$ /venv/bin/python /verif/check.py $p --tier ${TIER:-quick} 2>&1 | grep -E "VIOLATION|violation\[|HARNESS|tier=" | cut -c1-330
done
